//! C09: hostile datagram construction (structure-aware streams, mutations of captured traffic).

use crate::codec::{self, Id};
use crate::e1::world::World;
use crate::rng::Rng;

fn ver(r: &mut Rng) -> u64 {
    match r.below(10) {
        0 => 0,
        1 => u64::MAX,
        2 => u64::MAX - 1,
        3 => r.next(),
        _ => r.below(14),
    }
}

fn ids_of(w: &World, r: &mut Rng) -> Vec<Id> {
    let mut ids: Vec<Id> = w.incs.iter().map(|i| i.id.clone()).collect();
    ids.push(Id { node_id: "ghost".into(), generation: r.below(3), addr: "10.9.9.9:9999".parse().unwrap() });
    ids.push(Id { node_id: "x".repeat(300), generation: 7, addr: "[::1]:9".parse().unwrap() });
    ids
}

/// Versions near the victim's frontier for member `id` (state-aware hostility): boundaries are
/// where admission and skip rules change their mind.
/// role 0: delta watermark, 1: delta start version, 2: first key-value version, 3: max version op
fn near(r: &mut Rng, w: &World, to: usize, id: &Id, role: u8) -> u64 {
    let (gc, mv) = w.nodes.get(to).and_then(|n| n.as_ref()).and_then(|n| n.view.get(id)).map(|c| (c.gc, c.mv)).unwrap_or((0, 0));
    let pick = r.below(10);
    match role {
        0 => match pick {
            0..=3 => gc,
            4..=5 => 0,
            6 => gc.saturating_add(1),
            7 => mv,
            8 => mv.saturating_add(1),
            _ => ver(r),
        },
        1 => match pick {
            0..=3 => 0,
            4..=6 => mv,
            7 => mv.saturating_sub(1),
            8 => mv.saturating_add(1),
            _ => ver(r),
        },
        2 => match pick {
            0..=3 => mv,
            4..=5 => mv.saturating_add(1),
            6 => mv.saturating_sub(1),
            7 => gc,
            8 => 1,
            _ => ver(r),
        },
        _ => match pick {
            0..=2 => mv,
            3..=5 => mv.saturating_add(1),
            6 => mv.saturating_sub(1),
            7 => gc,
            _ => ver(r),
        },
    }
}

fn structured(r: &mut Rng, w: &World, to: usize) -> Vec<u8> {
    let ids = ids_of(w, r);
    let mut b = Vec::new();
    codec::put_u16(&mut b, codec::MAGIC);
    b.push(0);
    let kind = r.below(4) as u8;
    b.push(kind);
    let digest = |r: &mut Rng, b: &mut Vec<u8>| {
        let n = r.below(4) as usize;
        codec::put_u16(b, n as u16);
        for _ in 0..n {
            codec::put_id(b, r.pick(&ids));
            for _ in 0..3 {
                codec::put_u64(b, ver(r));
            }
        }
    };
    let aware = r.chance(0.6);
    let delta = |r: &mut Rng, b: &mut Vec<u8>| {
        let mut ops = Vec::new();
        let mut cur: Option<Id> = None;
        let mut last_v = 0u64;
        for _ in 0..r.below(8) {
            match r.below(3) {
                0 => {
                    ops.push(0u8);
                    let id = r.pick(&ids).clone();
                    codec::put_id(&mut ops, &id);
                    let (a, b) = if aware { (near(r, w, to, &id, 0), near(r, w, to, &id, 1)) } else { (ver(r), ver(r)) };
                    codec::put_u64(&mut ops, a);
                    codec::put_u64(&mut ops, b);
                    cur = Some(id);
                    last_v = 0;
                }
                1 => {
                    ops.push(1u8);
                    codec::put_str(&mut ops, *r.pick(&["a", "b", "", "é", "svc", "k0", "k1", "zz"]));
                    codec::put_str(&mut ops, *r.pick(&["v", "", "long-value-long-value"]));
                    let v = match (&cur, aware) {
                        (Some(id), true) => {
                            // mostly increasing from near the frontier, so that the stream decodes
                            last_v = if last_v == 0 { near(r, w, to, id, 2) } else if r.chance(0.1) { near(r, w, to, id, 2) } else if r.chance(0.12) { last_v } else { last_v.saturating_add(1 + r.below(2)) };
                            last_v
                        }
                        _ => ver(r),
                    };
                    codec::put_u64(&mut ops, v);
                    ops.push(r.below(4) as u8);
                }
                _ => {
                    ops.push(2u8);
                    let v = match (&cur, aware) {
                        (Some(id), true) => near(r, w, to, id, 3).max(if r.chance(0.7) { last_v } else { 0 }),
                        _ => ver(r),
                    };
                    codec::put_u64(&mut ops, v);
                }
            }
        }
        let mut rest = &ops[..];
        while !rest.is_empty() {
            let take = 1 + r.usize_below(rest.len());
            if r.chance(0.5) {
                b.push(2);
                codec::put_u16(b, take as u16);
                b.extend_from_slice(&rest[..take]);
            } else {
                let c = zstd::bulk::compress(&rest[..take], 0).unwrap();
                b.push(1);
                codec::put_u16(b, c.len() as u16);
                b.extend_from_slice(&c);
            }
            rest = &rest[take..];
        }
        b.push(0);
    };
    match kind {
        0 => {
            digest(r, &mut b);
            let cl = if r.chance(0.8) { w.cfg.cluster_ids[0].clone() } else { "other".to_string() };
            codec::put_str(&mut b, &cl);
        }
        1 => {
            digest(r, &mut b);
            delta(r, &mut b);
        }
        2 => delta(r, &mut b),
        _ => {}
    }
    b
}

fn mutate(r: &mut Rng, mut b: Vec<u8>) -> Vec<u8> {
    if b.is_empty() {
        return b;
    }
    match r.below(6) {
        0 => {
            let i = r.usize_below(b.len());
            b[i] ^= 1 << r.below(8);
        }
        1 => {
            let n = r.usize_below(b.len());
            b.truncate(n);
        }
        2 => {
            let i = r.usize_below(b.len());
            b[i] = r.next() as u8;
        }
        3 => {
            for _ in 0..1 + r.below(20) {
                b.push(r.next() as u8);
            }
        }
        4 => {
            // overwrite 8 bytes somewhere with an extreme integer
            if b.len() > 12 {
                let i = 4 + r.usize_below(b.len() - 12);
                let v = *r.pick(&[0u64, u64::MAX, 1, u64::MAX - 1]);
                b[i..i + 8].copy_from_slice(&v.to_le_bytes());
            }
        }
        _ => {
            // zstd bomb: a compressed block that inflates to the limit
            let mut x = Vec::new();
            codec::put_u16(&mut x, codec::MAGIC);
            x.push(0);
            x.push(2);
            let c = zstd::bulk::compress(&vec![0u8; 65_535], 0).unwrap();
            for _ in 0..1 + r.below(30) {
                x.push(1);
                codec::put_u16(&mut x, c.len() as u16);
                x.extend_from_slice(&c);
            }
            x.push(0);
            b = x;
        }
    }
    b.truncate(codec::MAX_DATAGRAM);
    b
}

/// A valid SYN of the victim's own cluster whose digest lists two members with node ids so long that
/// the victim's own digest, once it has learnt them, lands on a chosen size just below the datagram
/// limit: it still fits a datagram (C09's condition) but leaves less room for a delta than the
/// serializer wants.
fn inflate(r: &mut Rng, w: &World, to: usize) -> Vec<u8> {
    let Some(node) = w.nodes.get(to).and_then(|n| n.as_ref()) else { return structured(r, w, to) };
    let mut own = Vec::new();
    codec::put_u16(&mut own, node.view.len() as u16);
    for id in node.view.keys() {
        codec::put_id(&mut own, id);
        own.extend_from_slice(&[0u8; 24]);
    }
    // C09 speaks of nodes whose members still fit a digest in one datagram: the node's own SYN is
    // 4 header bytes, the digest, and the length-prefixed cluster id
    let cluster_len = w.cfg.cluster_ids[w.cluster_now[to]].len();
    let largest = codec::MAX_DATAGRAM - 4 - 2 - cluster_len;
    let target = (*r.pick(&[65_403usize, 65_404, 65_405, 65_450, 65_480, 65_499, 65_501])).min(largest);
    // an entry costs: 2 + id length, 8 generation, 7 IPv4 address, 24 for the three counters
    let per_entry_fixed = 2 + 8 + 7 + 24;
    let Some(extra) = target.checked_sub(own.len() + 2 * per_entry_fixed) else { return structured(r, w, to) };
    if extra < 2 || extra / 2 > 60_000 {
        return structured(r, w, to);
    }
    let (l1, l2) = (extra / 2, extra - extra / 2);
    let mut b = Vec::new();
    codec::put_u16(&mut b, codec::MAGIC);
    b.push(0);
    b.push(0); // SYN
    codec::put_u16(&mut b, 2);
    for (k, l) in [l1, l2].into_iter().enumerate() {
        let id = Id { node_id: format!("{k}").repeat(l), generation: r.below(3), addr: format!("10.8.0.{}:7{:03}", k + 1, r.below(1000)).parse().unwrap() };
        codec::put_id(&mut b, &id);
        codec::put_u64(&mut b, 1 + r.below(5));
        codec::put_u64(&mut b, 0);
        codec::put_u64(&mut b, 0);
    }
    let cluster = w.cfg.cluster_ids[w.cluster_now[to]].clone();
    codec::put_str(&mut b, &cluster);
    b
}

pub fn craft(r: &mut Rng, w: &World, captured: &[Vec<u8>], to: usize) -> Vec<u8> {
    if r.chance(0.06) {
        return inflate(r, w, to);
    }
    match r.below(3) {
        0 => structured(r, w, to),
        1 if !captured.is_empty() => {
            let c = r.pick(captured).clone();
            mutate(r, c)
        }
        _ => {
            let c = structured(r, w, to);
            mutate(r, c)
        }
    }
}
