//! SplitMix64: the only source of choices in generated runs.

#[derive(Clone, Debug)]
pub struct Rng(pub u64);

pub fn mix(a: u64, b: u64) -> u64 {
    let mut r = Rng(a ^ b.wrapping_mul(0x9E37_79B9_7F4A_7C15).rotate_left(23));
    r.next();
    r.next()
}

impl Rng {
    pub fn new(seed: u64) -> Rng {
        let mut r = Rng(seed);
        r.next();
        r
    }
    pub fn next(&mut self) -> u64 {
        self.0 = self.0.wrapping_add(0x9E37_79B9_7F4A_7C15);
        let mut z = self.0;
        z = (z ^ (z >> 30)).wrapping_mul(0xBF58_476D_1CE4_E5B9);
        z = (z ^ (z >> 27)).wrapping_mul(0x94D0_49BB_1331_11EB);
        z ^ (z >> 31)
    }
    /// uniform in 0..n (n > 0)
    pub fn below(&mut self, n: u64) -> u64 {
        debug_assert!(n > 0);
        self.next() % n
    }
    pub fn usize_below(&mut self, n: usize) -> usize {
        self.below(n as u64) as usize
    }
    /// inclusive range
    pub fn range(&mut self, lo: u64, hi: u64) -> u64 {
        lo + self.below(hi - lo + 1)
    }
    pub fn f64(&mut self) -> f64 {
        (self.next() >> 11) as f64 / (1u64 << 53) as f64
    }
    pub fn chance(&mut self, p: f64) -> bool {
        self.f64() < p
    }
    pub fn pick<'a, T>(&mut self, xs: &'a [T]) -> &'a T {
        &xs[self.usize_below(xs.len())]
    }
    pub fn fork(&mut self) -> Rng {
        Rng::new(self.next())
    }
    pub fn shuffle<T>(&mut self, xs: &mut [T]) {
        for i in (1..xs.len()).rev() {
            let j = self.usize_below(i + 1);
            xs.swap(i, j);
        }
    }
}

/// FNV-style running hash used for trace hashes (never fed from a clock or the PRNG).
#[derive(Clone, Copy, Debug)]
pub struct Trace(pub u64);
impl Default for Trace {
    fn default() -> Self {
        Trace(0xcbf2_9ce4_8422_2325)
    }
}
impl Trace {
    pub fn u(&mut self, v: u64) {
        self.0 = (self.0 ^ v).wrapping_mul(0x0000_0100_0000_01b3).rotate_left(17);
    }
    pub fn bytes(&mut self, b: &[u8]) {
        self.u(b.len() as u64);
        for chunk in b.chunks(8) {
            let mut w = [0u8; 8];
            w[..chunk.len()].copy_from_slice(chunk);
            self.u(u64::from_le_bytes(w));
        }
    }
    pub fn s(&mut self, s: &str) {
        self.bytes(s.as_bytes())
    }
}
