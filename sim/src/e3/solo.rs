//! One real `Chitchat` in a paused runtime, talked to with datagrams built by the independent codec.

use std::collections::HashSet;
use std::net::SocketAddr;
use std::sync::atomic::{AtomicUsize, Ordering};
use std::sync::Arc;
use std::time::Duration;

use chitchat::{Chitchat, ChitchatConfig, ChitchatMessage, Deserializable, FailureDetectorConfig, NodeState, Serializable};
use tokio::sync::watch;

use crate::codec::{self, BlockPlan, Id, Msg};
use crate::common::guarded;
use crate::e1::world::{view_of, NodeView};

pub struct SoloCfg {
    pub id: Id,
    pub cluster: String,
    pub grace_ms: u64,
    pub dead_grace_ms: u64,
    pub phi: f64,
    pub window: usize,
    pub max_interval_ms: u64,
    pub initial_interval_ms: u64,
    pub predicate: bool,
}

pub struct Solo {
    pub rt: tokio::runtime::Runtime,
    pub chit: Chitchat,
    pub id: Id,
    pub cluster: String,
    pub now_ms: u64,
    pub cb: Arc<AtomicUsize>,
    pub _seed_tx: watch::Sender<HashSet<SocketAddr>>,
}

pub enum Reply {
    None,
    Bytes(Vec<u8>, Msg),
}

impl Solo {
    pub fn new(cfg: SoloCfg, rt: Option<tokio::runtime::Runtime>) -> Solo {
        let rt = rt.unwrap_or_else(|| tokio::runtime::Builder::new_current_thread().enable_time().start_paused(true).build().unwrap());
        let cb = Arc::new(AtomicUsize::new(0));
        let cb2 = cb.clone();
        let predicate: Option<Box<dyn Fn(&NodeState) -> bool + Send>> = if cfg.predicate { Some(Box::new(|ns: &NodeState| ns.get("svc").is_some())) } else { None };
        let config = ChitchatConfig {
            chitchat_id: cfg.id.to_real(),
            cluster_id: cfg.cluster.clone(),
            gossip_interval: Duration::from_millis(1000),
            listen_addr: cfg.id.addr,
            seed_nodes: Vec::new(),
            failure_detector_config: FailureDetectorConfig {
                phi_threshold: cfg.phi,
                sampling_window_size: cfg.window,
                max_interval: Duration::from_millis(cfg.max_interval_ms),
                initial_interval: Duration::from_millis(cfg.initial_interval_ms),
                dead_node_grace_period: Duration::from_millis(cfg.dead_grace_ms),
            },
            marked_for_deletion_grace_period: Duration::from_millis(cfg.grace_ms),
            catchup_callback: Some(Box::new(move || {
                cb2.fetch_add(1, Ordering::SeqCst);
            })),
            extra_liveness_predicate: predicate,
        };
        let (seed_tx, seed_rx) = watch::channel(HashSet::new());
        let chit = {
            let _g = rt.enter();
            Chitchat::with_chitchat_id_and_seeds(config, seed_rx, Vec::new())
        };
        Solo { rt, chit, id: cfg.id, cluster: cfg.cluster, now_ms: 0, cb, _seed_tx: seed_tx }
    }

    pub fn advance(&mut self, ms: u64) {
        self.rt.block_on(async { tokio::time::advance(Duration::from_millis(ms)).await });
        self.now_ms += ms;
    }

    pub fn view(&self) -> NodeView {
        view_of(&self.chit)
    }

    pub fn scheduled(&self) -> HashSet<Id> {
        let _g = self.rt.enter();
        self.chit.scheduled_for_deletion_nodes().map(Id::from_real).collect()
    }

    /// Sends bytes to the node. Err(String) = panic; Ok(None) = did not decode.
    pub fn send_bytes(&mut self, bytes: &[u8]) -> Result<Option<Reply>, String> {
        let mut cur = bytes;
        let real = match guarded(|| ChitchatMessage::deserialize(&mut cur))? {
            Ok(m) => m,
            Err(_) => return Ok(None),
        };
        let _g = self.rt.enter();
        let reply = guarded(|| self.chit.verif_process_message(real))?;
        match reply {
            None => Ok(Some(Reply::None)),
            Some(r) => {
                let bytes = guarded(|| r.serialize_to_vec()).map_err(|p| format!("serializing the reply panicked: {p}"))?;
                let msg = codec::decode(&bytes).map(|x| x.0).map_err(|e| format!("independent decoder rejects reply: {e}"))?;
                Ok(Some(Reply::Bytes(bytes, msg)))
            }
        }
    }

    pub fn send(&mut self, msg: &Msg, plan: BlockPlan) -> Result<Option<Reply>, String> {
        let bytes = codec::encode(msg, plan);
        self.send_bytes(&bytes)
    }

    pub fn evaluate(&mut self) -> Result<(), String> {
        let _g = self.rt.enter();
        guarded(|| self.chit.verif_update_nodes_liveness())
    }

    pub fn gc(&mut self) -> Result<(), String> {
        let _g = self.rt.enter();
        guarded(|| self.chit.verif_gc_keys_marked_for_deletion())
    }
}

/// (key, value, version, status)
pub type KvSpec = (String, String, u64, u8);

impl Solo {
    /// Makes the node learn member `x` (if needed) and installs a copy with the given frontier and
    /// entries through crafted deltas, the way a peer holding exactly that copy would.
    pub fn install_copy(&mut self, x: &Id, hb: u64, gc: u64, mv: u64, kvs: &[KvSpec]) -> Result<(), String> {
        use crate::codec::{Kv, NodeDigest, Op};
        let syn = Msg::Syn { digest: vec![(x.clone(), NodeDigest { heartbeat: hb, gc: 0, max: 0 })], cluster: self.cluster.clone() };
        self.send(&syn, BlockPlan::Auto { size: 16_384 })?;
        let mut sorted: Vec<&KvSpec> = kvs.iter().filter(|k| k.2 >= 1 && k.2 <= mv).collect();
        sorted.sort_by_key(|k| k.2);
        sorted.dedup_by_key(|k| k.2);
        let mut ops = vec![Op::Node { id: x.clone(), gc, from: 0 }];
        let mut top = 0;
        let mut seen = std::collections::HashSet::new();
        for (k, v, ver, st) in sorted.iter().map(|k| (&k.0, &k.1, k.2, k.3)) {
            if !seen.insert(k.clone()) {
                continue;
            }
            ops.push(Op::Kv(Kv { key: k.clone(), value: v.clone(), version: ver, status: st % 3 }));
            top = ver;
        }
        if top == 0 {
            if mv > 0 {
                ops.push(Op::SetMax(mv));
            }
            self.send(&Msg::Ack { ops }, BlockPlan::Auto { size: 16_384 })?;
        } else {
            self.send(&Msg::Ack { ops }, BlockPlan::Auto { size: 16_384 })?;
            if mv > top {
                let ops = vec![Op::Node { id: x.clone(), gc, from: top }, Op::SetMax(mv)];
                self.send(&Msg::Ack { ops }, BlockPlan::Auto { size: 16_384 })?;
            }
        }
        Ok(())
    }
}
