//! C18 with arbitrary input: any existing copy (absent, empty, mid-reset, ahead, behind, removed)
//! and any supplied state, consistent or not, interleaved with gossip steps.

use std::collections::{BTreeMap, HashSet};
use std::sync::atomic::Ordering;

use chitchat::{DeletionStatus, VersionedValue};
use serde::{Deserialize, Serialize};
use serde_json::Value;

use super::solo::{KvSpec, Solo, SoloCfg};
use crate::codec::{BlockPlan, Id, Msg, NodeDigest};
use crate::common::{guarded, Outcome, Stats, Violation};
use crate::engine::{Engine, RunRecord};
use crate::rng::{Rng, Trace};

#[derive(Clone, Debug, Serialize, Deserialize)]
pub struct CuCfg {
    pub dead_grace_ms: u64,
    pub phi: f64,
}

#[derive(Clone, Debug, Serialize, Deserialize)]
pub enum CuCmd {
    /// install a copy of member m through crafted gossip
    Install { m: usize, hb: u64, gc: u64, mv: u64, kvs: Vec<KvSpec> },
    /// a digest carrying a heartbeat for m
    Heartbeat { m: usize, hb: u64 },
    Advance { ms: u64 },
    Evaluate,
    Gc,
    Catchup { m: usize, kvs: Vec<KvSpec>, mv: u64, gc: u64 },
}

struct Cw {
    solo: Solo,
    ids: Vec<Id>,
    removed: HashSet<Id>,
    step: usize,
    stats: Stats,
    trace: Trace,
    log: Vec<String>,
    calls: u64,
}

fn member(i: usize) -> Id {
    Id { node_id: format!("m{i}"), generation: 0, addr: format!("10.5.0.{}:{}", i + 2, 7100 + i).parse().unwrap() }
}

impl Cw {
    fn new(cfg: &CuCfg) -> Cw {
        let id = Id { node_id: "cu".into(), generation: 0, addr: "10.5.0.1:7000".parse().unwrap() };
        let solo = Solo::new(
            SoloCfg { id, cluster: "c".into(), grace_ms: 10_000, dead_grace_ms: cfg.dead_grace_ms, phi: cfg.phi, window: 10, max_interval_ms: 10_000, initial_interval_ms: 5_000, predicate: false },
            None,
        );
        Cw { solo, ids: (0..3).map(member).collect(), removed: HashSet::new(), step: 0, stats: Stats::default(), trace: Trace::default(), log: Vec::new(), calls: 0 }
    }

    fn apply(&mut self, cmd: &CuCmd, keep_log: bool) -> Result<(), Violation> {
        self.step += 1;
        let step = self.step;
        if keep_log {
            self.log.push(format!("[{} t={}] {:?}", step, self.solo.now_ms, cmd));
        }
        let mk = |code: &str, detail: String| Violation { property: "C18".into(), code: code.into(), step, detail, finding: String::new() };
        match cmd {
            CuCmd::Install { m, hb, gc, mv, kvs } => {
                let Some(x) = self.ids.get(*m).cloned() else { return Ok(()) };
                let before = self.solo.view().contains_key(&x);
                self.solo.install_copy(&x, *hb, *gc, *mv, kvs).map_err(|p| mk("C18.setup_panic", format!("gossip step panicked: {p}")))?;
                if !before && self.solo.view().contains_key(&x) {
                    self.removed.remove(&x);
                }
                Ok(())
            }
            CuCmd::Heartbeat { m, hb } => {
                let Some(x) = self.ids.get(*m).cloned() else { return Ok(()) };
                let before = self.solo.view().contains_key(&x);
                let syn = Msg::Syn { digest: vec![(x.clone(), NodeDigest { heartbeat: *hb, gc: 0, max: 0 })], cluster: self.solo.cluster.clone() };
                self.solo.send(&syn, BlockPlan::Auto { size: 16_384 }).map_err(|p| mk("C18.setup_panic", format!("gossip step panicked: {p}")))?;
                if !before && self.solo.view().contains_key(&x) {
                    self.removed.remove(&x);
                }
                Ok(())
            }
            CuCmd::Advance { ms } => {
                self.solo.advance((*ms).min(100_000_000));
                Ok(())
            }
            CuCmd::Gc => self.solo.gc().map_err(|p| mk("C18.setup_panic", p)),
            CuCmd::Evaluate => {
                let before: HashSet<Id> = self.solo.view().keys().cloned().collect();
                self.solo.evaluate().map_err(|p| mk("C18.setup_panic", p))?;
                let after: HashSet<Id> = self.solo.view().keys().cloned().collect();
                for id in before.difference(&after) {
                    self.removed.insert(id.clone());
                    self.stats.inc("probe_member_removed");
                }
                Ok(())
            }
            CuCmd::Catchup { m, kvs, mv, gc } => {
                let Some(x) = self.ids.get(*m).cloned() else { return Ok(()) };
                let xr = x.to_real();
                // classify from the heartbeats seen so far, so that the evaluation after the call
                // (no time passes in between) can only differ because of the call itself
                {
                    let known: HashSet<Id> = self.solo.view().keys().cloned().collect();
                    self.solo.evaluate().map_err(|p| mk("C18.setup_panic", p))?;
                    let now_known: HashSet<Id> = self.solo.view().keys().cloned().collect();
                    for id in known.difference(&now_known) {
                        self.removed.insert(id.clone());
                    }
                }
                let before = self.solo.view().get(&x).cloned();
                let live_before: Vec<String> = {
                    let mut v: Vec<String> = self.solo.chit.live_nodes().map(|i| Id::from_real(i).short()).collect();
                    v.sort();
                    v
                };
                let cb_before = self.solo.cb.load(Ordering::SeqCst);
                // supplied versions are distinct per key and >= 1, as in any NodeState
                let mut supplied: BTreeMap<String, (String, u64, u8)> = BTreeMap::new();
                for (k, v, ver, st) in kvs {
                    if *ver >= 1 {
                        supplied.insert(k.clone(), (v.clone(), *ver, *st % 3));
                    }
                }
                // the supplied state is a state of the same member: a version identifies one write, so
                // it cannot name one key in the existing copy and another key in the supplied state
                // (observation O-7: such input leaves two keys at one version and a later reply
                // about the member trips the delta encoder's ordering assert)
                if let Some(b) = &before {
                    let taken: BTreeMap<u64, &String> = b.entries.iter().map(|(k, e)| (e.version, k)).collect();
                    let before_len = supplied.len();
                    supplied.retain(|k, v| taken.get(&v.1).map(|owner| *owner == k).unwrap_or(true));
                    if supplied.len() != before_len {
                        self.stats.inc("supplied_entries_dropped_version_collision");
                    }
                }
                let now = {
                    let _g = self.solo.rt.enter();
                    tokio::time::Instant::now()
                };
                let input: Vec<(String, VersionedValue)> = supplied
                    .iter()
                    .map(|(k, (v, ver, st))| {
                        let status = match st {
                            0 => DeletionStatus::Set,
                            1 => DeletionStatus::Deleted(now),
                            _ => DeletionStatus::DeleteAfterTtl(now),
                        };
                        (k.clone(), VersionedValue { value: v.clone(), version: *ver, status })
                    })
                    .collect();
                let res = {
                    let _g = self.solo.rt.enter();
                    let chit = &mut self.solo.chit;
                    guarded(|| chit.reset_node_state_if_update(&xr, input.into_iter(), *mv, *gc))
                };
                self.calls += 1;
                self.stats.inc("catchup_calls");
                let desc = format!(
                    "existing copy {:?}, supplied (watermark {gc}, max version {mv}, entries {:?})",
                    before.as_ref().map(|c| (c.gc, c.mv, c.entries.iter().map(|(k, e)| (k.clone(), e.version)).collect::<Vec<_>>())),
                    supplied.iter().map(|(k, v)| (k.clone(), v.1, v.2)).collect::<Vec<_>>()
                );
                if let Err(p) = res {
                    return Err(mk("C18.panic", format!("{desc}: panicked: {p}")));
                }
                let after = self.solo.view().get(&x).cloned();
                self.trace.u(after.as_ref().map(|c| c.gc * 1000 + c.mv).unwrap_or(u64::MAX));
                match (&before, &after) {
                    (None, Some(_)) if self.removed.contains(&x) => {
                        return Err(mk("C18.recreated", format!("{desc}: a garbage collected member was re-created by catch-up")));
                    }
                    (Some(_), None) => return Err(mk("C18.vanished", format!("{desc}: the copy vanished"))),
                    _ => {}
                }
                if before.is_none() && after.is_none() {
                    self.stats.inc("probe_catchup_on_removed_member");
                }
                if let Some(a) = &after {
                    let b = before.clone().unwrap_or_default();
                    if let Some((k, e)) = a.entries.iter().find(|(_, e)| e.version > a.mv) {
                        return Err(mk("C18.corrupt", format!("{desc}: the copy now holds {k:?}@{} above its max version {}", e.version, a.mv)));
                    }
                    if (a.gc, a.mv) < (b.gc, b.mv) {
                        return Err(mk("C18.regressed", format!("{desc}: frontier ({}, {}) -> ({}, {})", b.gc, b.mv, a.gc, a.mv)));
                    }
                    // an absent copy and an empty copy at (0, 0) are the same thing to every reader and peer
                    let unchanged = a.entries == b.entries && (a.gc, a.mv) == (b.gc, b.mv);
                    if unchanged {
                        self.stats.inc("probe_catchup_ignored");
                    } else {
                        let want: BTreeMap<String, u64> = supplied.iter().map(|(k, v)| (k.clone(), v.1.max(b.entries.get(k).map(|e| e.version).unwrap_or(0)))).collect();
                        let got: BTreeMap<String, u64> = a.entries.iter().map(|(k, e)| (k.clone(), e.version)).collect();
                        if got != want {
                            return Err(mk("C18.neither", format!("{desc}: result {got:?} is neither the old copy nor the supplied key set {want:?}")));
                        }
                        self.stats.inc("probe_catchup_replaced");
                        if b.gc > b.mv {
                            self.stats.inc("probe_catchup_on_mid_reset_copy");
                        }
                    }
                }
                let live_after: Vec<String> = {
                    let mut v: Vec<String> = self.solo.chit.live_nodes().map(|i| Id::from_real(i).short()).collect();
                    v.sort();
                    v
                };
                if live_after != live_before {
                    return Err(mk("C18.live_changed", format!("{desc}: live set {live_before:?} -> {live_after:?}")));
                }
                if self.solo.cb.load(Ordering::SeqCst) != cb_before {
                    return Err(mk("C18.callback", format!("{desc}: the catch-up callback ran")));
                }
                // the next evaluation must not make the member live by itself
                let was_live = live_before.contains(&x.short());
                self.solo.evaluate().map_err(|p| mk("C18.panic", format!("{desc}: evaluation after catch-up panicked: {p}")))?;
                let live_now = self.solo.chit.live_nodes().any(|i| *i == xr);
                if live_now && !was_live {
                    return Err(mk("C18.made_live", format!("{desc}: the member became live at the next evaluation without a heartbeat")));
                }
                let after_eval: HashSet<Id> = self.solo.view().keys().cloned().collect();
                if after.is_some() && !after_eval.contains(&x) {
                    self.removed.insert(x.clone());
                }
                Ok(())
            }
        }
    }
}

fn kvs(r: &mut Rng, maxv: u64) -> Vec<KvSpec> {
    let keys = ["a", "b", "c", "d", "é"];
    let mut versions: Vec<u64> = (1..=maxv.max(1)).collect();
    r.shuffle(&mut versions);
    let mut out = Vec::new();
    for k in keys {
        if r.chance(0.5) {
            if let Some(ver) = versions.pop() {
                out.push((k.to_string(), format!("{k}{ver}"), ver, r.below(3) as u8));
            }
        }
    }
    out
}

fn gen(seed: u64) -> (CuCfg, Vec<CuCmd>) {
    let mut r = Rng::new(seed);
    let cfg = CuCfg { dead_grace_ms: *r.pick(&[10_000u64, 100_000_000]), phi: 8.0 };
    let mut cmds = Vec::new();
    for _ in 0..r.range(2, 14) {
        let m = r.usize_below(3);
        let c = match r.below(10) {
            0 | 1 => {
                let mv = r.below(10);
                let gc = if r.chance(0.3) { r.below(12) } else { r.below(mv + 1) };
                CuCmd::Install { m, hb: r.range(1, 50), gc, mv, kvs: kvs(&mut r, mv) }
            }
            2 => CuCmd::Heartbeat { m, hb: r.range(1, 60) },
            3 => CuCmd::Advance { ms: *r.pick(&[1_000u64, 5_000, 10_000, 10_001, 100_000]) },
            4 => CuCmd::Evaluate,
            5 => CuCmd::Gc,
            _ => {
                let mv = r.below(14);
                let gc = r.below(14);
                {
                    let top = if r.chance(0.8) { mv.max(1) } else { 14 };
                    CuCmd::Catchup { m, kvs: kvs(&mut r, top), mv, gc }
                }
            }
        };
        cmds.push(c);
    }
    (cfg, cmds)
}

fn execute(cfg: &CuCfg, cmds: &[CuCmd], log: bool, prop: &str) -> (Outcome, Vec<String>) {
    let mut w = Cw::new(cfg);
    let mut v = None;
    for c in cmds {
        if let Err(e) = w.apply(c, log) {
            v = Some(e);
            break;
        }
    }
    let mut o = Outcome { trace: w.trace.0, stats: w.stats.clone(), steps: w.step as u64, sim_ms: w.solo.now_ms, nontrivial: w.calls > 0, ..Default::default() };
    match v {
        Some(v) if v.property == prop => o.violation = Some(v),
        Some(v) => o.foreign_abort = Some(format!("{}: {}", v.code, v.detail)),
        None => {}
    }
    (o, w.log)
}

pub struct Catchup;

impl Engine for Catchup {
    fn name(&self) -> &'static str {
        "E3-catchup"
    }
    fn generate(&self, seed: u64, prop: &str) -> RunRecord {
        let (cfg, cmds) = gen(seed);
        crate::abort::tee_cfg("E3-catchup", "arbitrary", &serde_json::to_value(&cfg).unwrap());
        crate::abort::tee_cmds(&cmds);
        let (outcome, _) = execute(&cfg, &cmds, false, prop);
        RunRecord { engine: "E3-catchup", profile: "arbitrary".into(), cfg: serde_json::to_value(&cfg).unwrap(), cmds: cmds.iter().map(|c| serde_json::to_value(c).unwrap()).collect(), outcome }
    }
    fn replay(&self, cfg: &Value, cmds: &[Value], prop: &str, log: bool) -> (Outcome, Vec<String>) {
        let cfg: CuCfg = serde_json::from_value(cfg.clone()).expect("catchup config");
        let cmds: Vec<CuCmd> = cmds.iter().filter_map(|c| serde_json::from_value(c.clone()).ok()).collect();
        execute(&cfg, &cmds, log, prop)
    }
    fn real_components(&self) -> Vec<&'static str> {
        vec!["chitchat/src/lib.rs reset_node_state_if_update, report_heartbeat, update_nodes_liveness", "chitchat/src/state.rs apply_delta (to build the existing copy)"]
    }
    fn stub_components(&self) -> Vec<&'static str> {
        vec!["members exist only as crafted datagrams and supplied states"]
    }
}
