//! C06 owner side: local key-value API against a reference versioned map with a clock.

use std::collections::{BTreeMap, HashSet};

use serde::{Deserialize, Serialize};
use serde_json::Value;

use super::solo::{Solo, SoloCfg};
use crate::codec::Id;
use crate::common::{guarded, Outcome, Stats, Violation};
use crate::e1::world::kind_of;
use crate::engine::{Engine, RunRecord};
use crate::rng::{Rng, Trace};

#[derive(Clone, Debug, Serialize, Deserialize)]
pub struct KvCfg {
    pub grace_ms: u64,
}

#[derive(Clone, Debug, Serialize, Deserialize, PartialEq)]
pub enum KvCmd {
    Set { key: String, value: String },
    SetTtl { key: String, value: String },
    Delete { key: String },
    DeleteTtl { key: String },
    Advance { ms: u64 },
    Gc,
}

#[derive(Clone, Debug, PartialEq)]
struct MEntry {
    value: String,
    version: u64,
    kind: u8,
    mark_ms: u64,
}

const KEYS: &[&str] = &["", "a", "ab", "abc", "b", "é", "éa", "\u{1F600}", "a\u{1F600}"];
const VALS: &[&str] = &["", "x", "y"];

struct Kw {
    solo: Solo,
    model: BTreeMap<String, MEntry>,
    mv: u64,
    gc: u64,
    grace: u64,
    step: usize,
    trace: Trace,
    stats: Stats,
    log: Vec<String>,
}

impl Kw {
    fn new(cfg: &KvCfg) -> Kw {
        let id = Id { node_id: "kv".into(), generation: 0, addr: "10.3.0.1:7000".parse().unwrap() };
        let solo = Solo::new(
            SoloCfg { id, cluster: "c".into(), grace_ms: cfg.grace_ms, dead_grace_ms: 100_000_000, phi: 8.0, window: 10, max_interval_ms: 10_000, initial_interval_ms: 5_000, predicate: false },
            None,
        );
        Kw { solo, model: BTreeMap::new(), mv: 0, gc: 0, grace: cfg.grace_ms, step: 0, trace: Trace::default(), stats: Stats::default(), log: Vec::new() }
    }

    fn v(&self, code: &str, detail: String) -> Violation {
        Violation { property: "C06".into(), code: code.into(), step: self.step, detail, finding: String::new() }
    }

    fn apply(&mut self, cmd: &KvCmd, keep_log: bool) -> Result<(), Violation> {
        self.step += 1;
        if keep_log {
            self.log.push(format!("[{} t={}] {:?}", self.step, self.solo.now_ms, cmd));
        }
        let now = self.solo.now_ms;
        let res = {
            let _g = self.solo.rt.enter();
            let chit = &mut self.solo.chit;
            guarded(|| match cmd {
                KvCmd::Set { key, value } => chit.self_node_state().set(key, value),
                KvCmd::SetTtl { key, value } => chit.self_node_state().set_with_ttl(key, value),
                KvCmd::Delete { key } => chit.self_node_state().delete(key),
                KvCmd::DeleteTtl { key } => chit.self_node_state().delete_after_ttl(key),
                KvCmd::Gc => chit.verif_gc_keys_marked_for_deletion(),
                KvCmd::Advance { .. } => {}
            })
        };
        if let Err(p) = res {
            let (prop, code) = if p.contains("listener.rs") { ("C15", "C15.panic") } else { ("C06", "C06.panic") };
            return Err(Violation { property: prop.into(), code: code.into(), step: self.step, detail: format!("{cmd:?} panicked: {p}"), finding: String::new() });
        }
        match cmd {
            KvCmd::Set { key, value } => {
                let same = self.model.get(key).map(|e| &e.value == value && e.kind == 0).unwrap_or(false);
                if !same {
                    self.mv += 1;
                    self.model.insert(key.clone(), MEntry { value: value.clone(), version: self.mv, kind: 0, mark_ms: 0 });
                } else {
                    self.stats.inc("probe_noop_write");
                }
            }
            KvCmd::SetTtl { key, value } => {
                let same = self.model.get(key).map(|e| &e.value == value && e.kind == 2).unwrap_or(false);
                if !same {
                    self.mv += 1;
                    self.model.insert(key.clone(), MEntry { value: value.clone(), version: self.mv, kind: 2, mark_ms: now });
                }
            }
            KvCmd::Delete { key } => {
                if let Some(e) = self.model.get_mut(key) {
                    self.mv += 1;
                    *e = MEntry { value: String::new(), version: self.mv, kind: 1, mark_ms: now };
                } else {
                    self.stats.inc("probe_delete_absent");
                }
            }
            KvCmd::DeleteTtl { key } => {
                // a deleted key is invisible at once and stays so: scheduling it for a later
                // deletion is as much a no-op as deleting an absent key (the statement's reference
                // map; the code used to make it visible again with an empty value, finding F-10)
                if self.model.get(key).map(|e| e.kind == 1).unwrap_or(false) {
                    self.stats.inc("probe_ttl_on_deleted_key");
                } else if let Some(e) = self.model.get_mut(key) {
                    self.mv += 1;
                    e.version = self.mv;
                    e.kind = 2;
                    e.mark_ms = now;
                }
            }
            KvCmd::Advance { ms } => self.solo.advance(*ms),
            KvCmd::Gc => {
                let mut top = self.gc;
                let grace = self.grace;
                let before = self.model.len();
                self.model.retain(|_, e| {
                    if e.kind != 0 && now >= e.mark_ms + grace {
                        top = top.max(e.version);
                        false
                    } else {
                        true
                    }
                });
                self.gc = top;
                if self.model.len() < before {
                    self.stats.add("probe_gc_removed", (before - self.model.len()) as u64);
                }
            }
        }
        // compare every read with the model
        let my_id = self.solo.id.to_real();
        let step = self.step;
        let mkv = |code: &str, detail: String| Violation { property: "C06".into(), code: code.into(), step, detail, finding: String::new() };
        let ns = self.solo.chit.node_state(&my_id).expect("own state");
        self.trace.u(ns.max_version());
        self.trace.u(ns.last_gc_version());
        if ns.max_version() != self.mv || ns.last_gc_version() != self.gc {
            return Err(mkv("C06.frontier", format!("after {cmd:?}: (watermark, max version) = ({}, {}), model ({}, {})", ns.last_gc_version(), ns.max_version(), self.gc, self.mv)));
        }
        let real: Vec<(String, String, u64, u8)> = ns.key_values_including_deleted().map(|(k, v)| (k.to_string(), v.value.clone(), v.version, kind_of(&v.status))).collect();
        let want: Vec<(String, String, u64, u8)> = self.model.iter().map(|(k, e)| (k.clone(), e.value.clone(), e.version, e.kind)).collect();
        for e in &real {
            self.trace.s(&e.0);
            self.trace.u(e.2 * 4 + e.3 as u64);
        }
        if real != want {
            return Err(mkv("C06.entries", format!("after {cmd:?}: entries {real:?}, model {want:?}")));
        }
        let visible: Vec<(&str, &str)> = self.model.iter().filter(|(_, e)| e.kind != 1).map(|(k, e)| (k.as_str(), e.value.as_str())).collect();
        let got: Vec<(&str, &str)> = ns.key_values().collect();
        if got != visible {
            return Err(mkv("C06.key_values", format!("after {cmd:?}: key_values() {got:?}, model {visible:?}")));
        }
        if ns.num_key_values() != visible.len() {
            return Err(mkv("C06.count", format!("after {cmd:?}: num_key_values() {}, model {}", ns.num_key_values(), visible.len())));
        }
        let mut prefixes: HashSet<String> = HashSet::new();
        for k in KEYS {
            let chars: Vec<char> = k.chars().collect();
            for l in 0..=chars.len() {
                prefixes.insert(chars[..l].iter().collect());
            }
        }
        prefixes.insert("zz".into());
        for k in KEYS {
            let vis = self.model.get(*k).filter(|e| e.kind != 1).map(|e| e.value.as_str());
            if ns.get(k) != vis || ns.contains_key(k) != vis.is_some() {
                return Err(mkv("C06.get", format!("after {cmd:?}: get({k:?}) = {:?}, contains = {}, model {vis:?}", ns.get(k), ns.contains_key(k))));
            }
            let gv = ns.get_versioned(k).map(|v| (v.version, kind_of(&v.status)));
            let mvv = self.model.get(*k).map(|e| (e.version, e.kind));
            if gv != mvv {
                return Err(mkv("C06.get_versioned", format!("after {cmd:?}: get_versioned({k:?}) = {gv:?}, model {mvv:?}")));
            }
        }
        for p in &prefixes {
            let got: Vec<&str> = ns.iter_prefix(p).map(|(k, _)| k).collect();
            let exp: Vec<&str> = self.model.iter().filter(|(k, e)| k.starts_with(p.as_str()) && e.kind != 1).map(|(k, _)| k.as_str()).collect();
            if got != exp {
                return Err(mkv("C06.iter_prefix", format!("after {cmd:?}: iter_prefix({p:?}) = {got:?}, model {exp:?}")));
            }
        }
        Ok(())
    }
}

fn gen(seed: u64) -> (KvCfg, Vec<KvCmd>) {
    let mut r = Rng::new(seed);
    let grace = *r.pick(&[1_000u64, 5_000, 60_000]);
    let cfg = KvCfg { grace_ms: grace };
    let nkeys = r.range(2, KEYS.len() as u64) as usize;
    let mut keys: Vec<&str> = KEYS.to_vec();
    r.shuffle(&mut keys);
    keys.truncate(nkeys);
    let len = if r.chance(0.3) { r.range(1, 5) } else { r.range(3, 40) };
    let mut cmds = Vec::new();
    for _ in 0..len {
        let key = r.pick(&keys).to_string();
        let value = r.pick(VALS).to_string();
        cmds.push(match r.below(10) {
            0 | 1 | 2 => KvCmd::Set { key, value },
            3 => KvCmd::SetTtl { key, value },
            4 | 5 => KvCmd::Delete { key },
            6 => KvCmd::DeleteTtl { key },
            7 | 8 => KvCmd::Advance { ms: *r.pick(&[1u64, grace - 1, grace, grace + 1, grace / 2, 3 * grace]) },
            _ => KvCmd::Gc,
        });
    }
    (cfg, cmds)
}

fn execute(cfg: &KvCfg, cmds: &[KvCmd], log: bool, prop: &str) -> (Outcome, Vec<String>) {
    let mut w = Kw::new(cfg);
    let mut v = None;
    for c in cmds {
        if let Err(e) = w.apply(c, log) {
            v = Some(e);
            break;
        }
    }
    // coverage: operation-kind prefixes of length <= 3
    let mut abs = Vec::new();
    let mut h = 0u64;
    for (i, c) in cmds.iter().take(3).enumerate() {
        let k = match c {
            KvCmd::Set { .. } => 1,
            KvCmd::SetTtl { .. } => 2,
            KvCmd::Delete { .. } => 3,
            KvCmd::DeleteTtl { .. } => 4,
            KvCmd::Advance { .. } => 5,
            KvCmd::Gc => 6,
        };
        h = h * 8 + k;
        abs.push(h + ((i as u64) << 32));
    }
    let mut o = Outcome { trace: w.trace.0, stats: w.stats.clone(), steps: w.step as u64, sim_ms: w.solo.now_ms, nontrivial: cmds.len() >= 3, abs_states: abs, ..Default::default() };
    match v {
        Some(v) if v.property == prop => o.violation = Some(v),
        Some(v) => o.foreign_abort = Some(format!("{}: {}", v.code, v.detail)),
        None => {}
    }
    (o, w.log)
}

pub struct Kv;

impl Engine for Kv {
    fn name(&self) -> &'static str {
        "E3-kv"
    }
    fn generate(&self, seed: u64, prop: &str) -> RunRecord {
        let (cfg, cmds) = gen(seed);
        crate::abort::tee_cfg("E3-kv", "kv", &serde_json::to_value(&cfg).unwrap());
        crate::abort::tee_cmds(&cmds);
        let (outcome, _) = execute(&cfg, &cmds, false, prop);
        RunRecord { engine: "E3-kv", profile: "kv".into(), cfg: serde_json::to_value(&cfg).unwrap(), cmds: cmds.iter().map(|c| serde_json::to_value(c).unwrap()).collect(), outcome }
    }
    fn replay(&self, cfg: &Value, cmds: &[Value], prop: &str, log: bool) -> (Outcome, Vec<String>) {
        let cfg: KvCfg = serde_json::from_value(cfg.clone()).expect("kv config");
        let cmds: Vec<KvCmd> = cmds.iter().filter_map(|c| serde_json::from_value(c.clone()).ok()).collect();
        execute(&cfg, &cmds, log, prop)
    }
    fn real_components(&self) -> Vec<&'static str> {
        vec!["chitchat/src/state.rs NodeState local API (set, set_with_ttl, delete, delete_after_ttl, reads, gc_keys_marked_for_deletion)", "chitchat/src/types.rs DeletionStatus"]
    }
    fn stub_components(&self) -> Vec<&'static str> {
        vec!["no network: a single node, the clock is the paused tokio clock"]
    }
}
