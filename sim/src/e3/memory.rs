//! C12, removal memory: one observer, hundreds of synthetic members that exist only as heartbeats
//! inside crafted SYN digests. Members are learnt, die, are removed after the grace period (which
//! fills the bounded memory of removed members, 500 records) and come back with lower, equal or
//! higher heartbeats. Oracle, independent of which records the memory still holds:
//!  * a member removed with heartbeat h is re-created by a digest heartbeat strictly above h
//!    (remembered: higher wins; forgotten: any value creates it);
//!  * while fewer than 500 later removals and probes happened, it is certainly remembered and a
//!    heartbeat at or below h must not re-create it.

use std::collections::{BTreeMap, HashSet};
use std::net::SocketAddr;
use std::time::Duration;

use chitchat::{Chitchat, ChitchatConfig, ChitchatMessage, Deserializable, FailureDetectorConfig};
use serde::{Deserialize, Serialize};
use serde_json::Value;
use tokio::sync::watch;

use crate::codec::{self, BlockPlan, Id, Msg, NodeDigest};
use crate::common::{guarded, Outcome, Stats, Violation};
use crate::engine::{Engine, RunRecord};
use crate::rng::{Rng, Trace};

const MEMORY: u64 = 500;

#[derive(Clone, Debug, Serialize, Deserialize)]
pub struct MemCfg {
    pub dead_grace_ms: u64,
}

#[derive(Clone, Debug, Serialize, Deserialize)]
pub enum MemCmd {
    /// a SYN whose digest lists members first..first+count with heartbeat hb + (index % spread)
    Learn { first: u32, count: u32, hb: u64, spread: u64 },
    Advance { ms: u64 },
    Evaluate,
}

struct Rec {
    hb: u64,
    /// removals and digest mentions of other removed members since this one was removed
    later: u64,
}

struct Mw {
    rt: tokio::runtime::Runtime,
    node: Chitchat,
    _k: watch::Sender<HashSet<SocketAddr>>,
    now: u64,
    /// members the observer holds: highest heartbeat seen in a digest since creation
    known: BTreeMap<u32, u64>,
    removed: BTreeMap<u32, Rec>,
    step: usize,
    stats: Stats,
    trace: Trace,
    log: Vec<String>,
    nontrivial: bool,
}

fn member(i: u32) -> Id {
    Id { node_id: format!("m{i}"), generation: 0, addr: SocketAddr::from(([10, 5, (i >> 8) as u8, i as u8], 7000)) }
}

impl Mw {
    fn new(cfg: &MemCfg) -> Mw {
        let rt = tokio::runtime::Builder::new_current_thread().enable_time().start_paused(true).build().unwrap();
        let me = Id { node_id: "obs".into(), generation: 0, addr: "10.4.0.1:7000".parse().unwrap() };
        let config = ChitchatConfig {
            chitchat_id: me.to_real(),
            cluster_id: "c".into(),
            gossip_interval: Duration::from_millis(1000),
            listen_addr: me.addr,
            seed_nodes: Vec::new(),
            failure_detector_config: FailureDetectorConfig { dead_node_grace_period: Duration::from_millis(cfg.dead_grace_ms), ..Default::default() },
            marked_for_deletion_grace_period: Duration::from_secs(1000),
            catchup_callback: None,
            extra_liveness_predicate: None,
        };
        let (tx, rx) = watch::channel(HashSet::new());
        let node = {
            let _g = rt.enter();
            Chitchat::with_chitchat_id_and_seeds(config, rx, Vec::new())
        };
        Mw { rt, node, _k: tx, now: 0, known: BTreeMap::new(), removed: BTreeMap::new(), step: 0, stats: Stats::default(), trace: Trace::default(), log: Vec::new(), nontrivial: false }
    }

    fn holds(&self, i: u32) -> bool {
        self.node.node_state(&member(i).to_real()).is_some()
    }

    fn apply(&mut self, cmd: &MemCmd, keep_log: bool) -> Result<(), Violation> {
        self.step += 1;
        if keep_log {
            self.log.push(format!("[{} t={}] {:?} known={} removed={}", self.step, self.now, cmd, self.known.len(), self.removed.len()));
        }
        let step = self.step;
        let mk = |code: &str, detail: String| Violation { property: "C12".into(), code: code.into(), step, detail, finding: String::new() };
        match cmd {
            MemCmd::Advance { ms } => {
                let ms = (*ms).min(50_000_000);
                self.rt.block_on(async { tokio::time::advance(Duration::from_millis(ms)).await });
                self.now += ms;
                Ok(())
            }
            MemCmd::Learn { first, count, hb, spread } => {
                let ids: Vec<u32> = (*first..first.saturating_add((*count).min(900))).collect();
                let mut digest: Vec<(Id, NodeDigest)> = ids.iter().map(|i| (member(*i), NodeDigest { heartbeat: hb + (*i as u64) % (*spread).max(1), gc: 0, max: 0 })).collect();
                digest.sort_by(|a, b| a.0.cmp(&b.0));
                let bytes = codec::encode(&Msg::Syn { digest, cluster: "c".into() }, BlockPlan::Auto { size: 16_384 });
                let held_before: Vec<bool> = ids.iter().map(|i| self.holds(*i)).collect();
                let res = {
                    let _g = self.rt.enter();
                    let mut cur = &bytes[..];
                    let msg = ChitchatMessage::deserialize(&mut cur).expect("crafted SYN decodes");
                    let node = &mut self.node;
                    guarded(|| node.verif_process_message(msg))
                };
                if let Err(p) = res {
                    return Err(mk("C12.panic", format!("digest processing panicked: {p}")));
                }
                let mentions_of_removed = ids.iter().filter(|i| self.removed.contains_key(i)).count() as u64;
                for (k, i) in ids.iter().enumerate() {
                    let h = hb + (*i as u64) % (*spread).max(1);
                    let held = self.holds(*i);
                    self.trace.u(held as u64);
                    if held_before[k] {
                        let e = self.known.entry(*i).or_insert(h);
                        *e = (*e).max(h);
                        continue;
                    }
                    match self.removed.get(i) {
                        None => {
                            if !held {
                                return Err(mk("C12.not_created", format!("member m{i}, never removed, was not created by a digest with heartbeat {h}")));
                            }
                            self.known.insert(*i, h);
                        }
                        Some(rec) => {
                            self.nontrivial = true;
                            if h > rec.hb && !held {
                                return Err(mk(
                                    "C12.not_recreated",
                                    format!("member m{i} was removed with heartbeat {} and is not re-created by heartbeat {h} ({} removed members on record, {} later removals or mentions)", rec.hb, self.removed.len(), rec.later),
                                ));
                            }
                            if h <= rec.hb && held && rec.later + mentions_of_removed < MEMORY {
                                return Err(mk(
                                    "C12.revived",
                                    format!("member m{i} was removed with heartbeat {} and is re-created by heartbeat {h} although at most {} later removals or mentions can have displaced its record (memory {MEMORY})", rec.hb, rec.later + mentions_of_removed),
                                ));
                            }
                            if held {
                                self.stats.inc("probe_member_recreated");
                                self.removed.remove(i);
                                self.known.insert(*i, h);
                            } else {
                                self.stats.inc("probe_recreate_refused");
                            }
                        }
                    }
                }
                for rec in self.removed.values_mut() {
                    rec.later += mentions_of_removed;
                }
                Ok(())
            }
            MemCmd::Evaluate => {
                let res = {
                    let _g = self.rt.enter();
                    let node = &mut self.node;
                    guarded(|| node.verif_update_nodes_liveness())
                };
                if let Err(p) = res {
                    return Err(mk("C12.panic", format!("evaluation panicked: {p}")));
                }
                let gone: Vec<u32> = self.known.keys().copied().filter(|i| !self.holds(*i)).collect();
                self.trace.u(gone.len() as u64);
                if !gone.is_empty() {
                    self.stats.add("probe_member_removed", gone.len() as u64);
                    let n = gone.len() as u64;
                    for rec in self.removed.values_mut() {
                        rec.later += n;
                    }
                    // removals of one evaluation come in an order the model does not know
                    for (k, i) in gone.iter().enumerate() {
                        let hb = self.known.remove(i).unwrap();
                        let _ = k;
                        self.removed.insert(*i, Rec { hb, later: n - 1 });
                    }
                    if self.removed.len() as u64 >= MEMORY {
                        self.stats.inc("probe_removal_memory_full");
                    }
                }
                Ok(())
            }
        }
    }
}

fn gen(seed: u64) -> (MemCfg, Vec<MemCmd>) {
    let mut r = Rng::new(seed);
    let grace = *r.pick(&[20_000u64, 60_000]);
    let cfg = MemCfg { dead_grace_ms: grace };
    let mut cmds = Vec::new();
    let mut next_id = 0u32;
    // fill (or nearly fill) the memory with members of mixed heartbeats
    let bulk = *r.pick(&[0u32, 100, 498, 499, 500, 501, 650]);
    let mut left = bulk;
    while left > 0 {
        let c = left.min(*r.pick(&[100u32, 250, 499, 500, 650]));
        cmds.push(MemCmd::Learn { first: next_id, count: c, hb: *r.pick(&[1u64, 5, 1_000_000, u64::MAX - 10]), spread: *r.pick(&[1u64, 7]) });
        next_id += c;
        left -= c;
        if r.chance(0.5) {
            cmds.push(MemCmd::Evaluate);
            cmds.push(MemCmd::Advance { ms: grace });
            cmds.push(MemCmd::Evaluate);
        }
    }
    cmds.push(MemCmd::Evaluate);
    cmds.push(MemCmd::Advance { ms: grace + r.below(3) });
    cmds.push(MemCmd::Evaluate);
    // a few members of interest: learnt, removed, then probed around their removal heartbeat
    for _ in 0..r.range(1, 6) {
        let hb = *r.pick(&[1u64, 2, 10, 1000, 1_000_000]);
        let first = if r.chance(0.3) && next_id > 0 { r.below(next_id as u64) as u32 } else { next_id };
        let count = r.range(1, 3) as u32;
        if first == next_id {
            next_id += count;
        }
        cmds.push(MemCmd::Learn { first, count, hb, spread: 1 });
        if r.chance(0.5) {
            cmds.push(MemCmd::Learn { first, count, hb: hb + r.below(3), spread: 1 });
        }
        cmds.push(MemCmd::Evaluate);
        cmds.push(MemCmd::Advance { ms: *r.pick(&[grace - 1, grace, grace + 1, 2 * grace]) });
        cmds.push(MemCmd::Evaluate);
        for _ in 0..r.range(1, 3) {
            cmds.push(MemCmd::Learn { first, count, hb: (hb + 2).saturating_sub(r.below(4)), spread: 1 });
            if r.chance(0.3) {
                cmds.push(MemCmd::Evaluate);
            }
        }
    }
    (cfg, cmds)
}

fn execute(cfg: &MemCfg, cmds: &[MemCmd], log: bool, prop: &str) -> (Outcome, Vec<String>) {
    let mut w = Mw::new(cfg);
    let mut v = None;
    for c in cmds {
        if let Err(e) = w.apply(c, log) {
            v = Some(e);
            break;
        }
    }
    let mut o = Outcome { trace: w.trace.0, stats: w.stats.clone(), steps: w.step as u64, sim_ms: w.now, nontrivial: w.nontrivial, ..Default::default() };
    match v {
        Some(v) if v.property == prop => o.violation = Some(v),
        Some(v) => o.foreign_abort = Some(format!("{}: {}", v.code, v.detail)),
        None => {}
    }
    (o, w.log)
}

pub struct Memory;

impl Engine for Memory {
    fn name(&self) -> &'static str {
        "E3-memory"
    }
    fn generate(&self, seed: u64, prop: &str) -> RunRecord {
        let (cfg, cmds) = gen(seed);
        crate::abort::tee_cfg("E3-memory", "removal_memory", &serde_json::to_value(&cfg).unwrap());
        crate::abort::tee_cmds(&cmds);
        let (outcome, _) = execute(&cfg, &cmds, false, prop);
        RunRecord { engine: "E3-memory", profile: "removal_memory".into(), cfg: serde_json::to_value(&cfg).unwrap(), cmds: cmds.iter().map(|c| serde_json::to_value(c).unwrap()).collect(), outcome }
    }
    fn replay(&self, cfg: &Value, cmds: &[Value], prop: &str, log: bool) -> (Outcome, Vec<String>) {
        let cfg: MemCfg = serde_json::from_value(cfg.clone()).expect("memory config");
        let cmds: Vec<MemCmd> = cmds.iter().filter_map(|c| serde_json::from_value(c.clone()).ok()).collect();
        execute(&cfg, &cmds, log, prop)
    }
    fn real_components(&self) -> Vec<&'static str> {
        vec!["chitchat/src/lib.rs report_heartbeat / update_nodes_liveness", "chitchat/src/state.rs remove_node and the removed-member memory", "chitchat/src/failure_detector.rs garbage_collect"]
    }
    fn stub_components(&self) -> Vec<&'static str> {
        vec!["the members exist only as heartbeats inside crafted SYN digests"]
    }
}
