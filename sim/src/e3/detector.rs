//! C10 / C11: phi-accrual detector under arbitrary heartbeat histories, two observers in
//! lock-step (one also receives stale, duplicated, reordered and relayed heartbeats).

use std::collections::HashSet;
use std::net::SocketAddr;
use std::time::Duration;

use chitchat::{Chitchat, ChitchatConfig, ChitchatMessage, Deserializable, FailureDetectorConfig};
use serde::{Deserialize, Serialize};
use serde_json::Value;
use tokio::sync::watch;

use crate::codec::{self, BlockPlan, Id, Msg, NodeDigest};
use crate::common::{guarded, Outcome, Stats, Violation};
use crate::engine::{Engine, RunRecord};
use crate::rng::{Rng, Trace};

#[derive(Clone, Debug, Serialize, Deserialize)]
pub struct DetCfg {
    pub phi: f64,
    pub window: usize,
    pub max_interval_ms: u64,
    pub initial_interval_ms: u64,
    pub dead_grace_ms: u64,
    /// steady mode: fresh arrivals every [a, b] ms and the accuracy clause applies
    pub steady: Option<(u64, u64)>,
}

#[derive(Clone, Debug, Serialize, Deserialize)]
pub enum DetCmd {
    Advance { ms: u64 },
    /// a strictly higher heartbeat (record + inc) reaches both observers
    Fresh { inc: u64 },
    /// an equal or lower heartbeat (record - back) reaches observer 1 only, `times` times,
    /// optionally relayed inside a digest that also lists other members
    Stale { back: u64, times: u8, relayed: bool },
    Evaluate,
    /// the application feeds both observers a newer state of the member through the catch-up
    /// entry point (`reset_node_state_if_update`); it carries no heartbeat and must not change
    /// what the detector knows
    Catchup { bump: u64 },
}

fn mk(rt: &tokio::runtime::Runtime, id: &Id, cfg: &DetCfg) -> (Chitchat, watch::Sender<HashSet<SocketAddr>>) {
    let config = ChitchatConfig {
        chitchat_id: id.to_real(),
        cluster_id: "c".into(),
        gossip_interval: Duration::from_millis(1000),
        listen_addr: id.addr,
        seed_nodes: Vec::new(),
        failure_detector_config: FailureDetectorConfig {
            phi_threshold: cfg.phi,
            sampling_window_size: cfg.window,
            max_interval: Duration::from_millis(cfg.max_interval_ms),
            initial_interval: Duration::from_millis(cfg.initial_interval_ms),
            dead_node_grace_period: Duration::from_millis(cfg.dead_grace_ms),
        },
        marked_for_deletion_grace_period: Duration::from_secs(1000),
        catchup_callback: None,
        extra_liveness_predicate: None,
    };
    let (tx, rx) = watch::channel(HashSet::new());
    let _g = rt.enter();
    (Chitchat::with_chitchat_id_and_seeds(config, rx, Vec::new()), tx)
}

struct Dw {
    rt: tokio::runtime::Runtime,
    n1: Chitchat,
    n2: Chitchat,
    _k: (watch::Sender<HashSet<SocketAddr>>, watch::Sender<HashSet<SocketAddr>>),
    x: Id,
    other: Id,
    cfg: DetCfg,
    now: u64,
    record: u64,
    /// observations since the member's state was (re)created on the observers
    obs: u64,
    last_fresh_ms: Option<u64>,
    last_gap_ok: bool,
    /// fresh observations since the last evaluation that found the member dead whose gap to the
    /// previous fresh observation is at most max_interval (what the sampling window can hold)
    usable: u64,
    /// fresh arrivals since the last evaluation: (time, observations counted before it)
    recent: Vec<(u64, u64)>,
    /// smallest gap between consecutive fresh arrivals since the copy was created
    min_gap: Option<u64>,
    prop: String,
    step: usize,
    stats: Stats,
    trace: Trace,
    log: Vec<String>,
    nontrivial_c10: bool,
    nontrivial_c11: bool,
}

fn syn(x: &Id, hb: u64, extra: Option<&Id>) -> Vec<u8> {
    let mut digest = vec![(x.clone(), NodeDigest { heartbeat: hb, gc: 0, max: 0 })];
    if let Some(o) = extra {
        digest.push((o.clone(), NodeDigest { heartbeat: 1, gc: 0, max: 0 }));
    }
    digest.sort_by(|a, b| a.0.cmp(&b.0));
    codec::encode(&Msg::Syn { digest, cluster: "c".into() }, BlockPlan::Auto { size: 16_384 })
}

impl Dw {
    fn new(cfg: &DetCfg) -> Dw {
        let rt = tokio::runtime::Builder::new_current_thread().enable_time().start_paused(true).build().unwrap();
        let me = Id { node_id: "obs".into(), generation: 0, addr: "10.4.0.1:7000".parse().unwrap() };
        let (n1, k1) = mk(&rt, &me, cfg);
        let (n2, k2) = mk(&rt, &me, cfg);
        Dw {
            rt,
            n1,
            n2,
            _k: (k1, k2),
            x: Id { node_id: "x".into(), generation: 0, addr: "10.4.0.9:7009".parse().unwrap() },
            other: Id { node_id: "other".into(), generation: 0, addr: "10.4.0.8:7008".parse().unwrap() },
            cfg: cfg.clone(),
            now: 0,
            record: 0,
            obs: 0,
            last_fresh_ms: None,
            last_gap_ok: true,
            usable: 0,
            recent: Vec::new(),
            min_gap: None,
            prop: String::new(),
            step: 0,
            stats: Stats::default(),
            trace: Trace::default(),
            log: Vec::new(),
            nontrivial_c10: false,
            nontrivial_c11: false,
        }
    }

    fn deliver(&mut self, which: u8, bytes: &[u8]) -> Result<(), Violation> {
        let step = self.step;
        let _g = self.rt.enter();
        let node = if which == 1 { &mut self.n1 } else { &mut self.n2 };
        let mut cur = bytes;
        let msg = ChitchatMessage::deserialize(&mut cur).expect("crafted SYN decodes");
        guarded(|| node.verif_process_message(msg))
            .map(|_| ())
            .map_err(|p| Violation { property: "C11".into(), code: "C11.panic".into(), step, detail: format!("digest processing panicked: {p}"), finding: String::new() })
    }

    fn class(&self, n: &Chitchat) -> (bool, bool, bool) {
        let rid = self.x.to_real();
        (n.live_nodes().any(|i| *i == rid), n.dead_nodes().any(|i| *i == rid), n.node_state(&rid).is_some())
    }

    fn apply(&mut self, cmd: &DetCmd, keep_log: bool) -> Result<(), Violation> {
        self.step += 1;
        if keep_log {
            self.log.push(format!("[{} t={}] {:?} record={} obs={}", self.step, self.now, cmd, self.record, self.obs));
        }
        let step = self.step;
        let mk = |prop: &str, code: &str, detail: String| Violation { property: prop.into(), code: code.into(), step, detail, finding: String::new() };
        match cmd {
            DetCmd::Advance { ms } => {
                let ms = (*ms).min(50_000_000);
                self.rt.block_on(async { tokio::time::advance(Duration::from_millis(ms)).await });
                self.now += ms;
                Ok(())
            }
            DetCmd::Fresh { inc } => {
                let hb = self.record + (*inc).max(1);
                let known_before = self.n2.node_state(&self.x.to_real()).is_some();
                let b = syn(&self.x, hb, None);
                self.deliver(1, &b)?;
                self.deliver(2, &b)?;
                let known_after = self.n2.node_state(&self.x.to_real()).is_some();
                if known_after {
                    if !known_before {
                        self.obs = 0;
                        self.min_gap = None;
                        self.recent.clear();
                    }
                    if let Some(t) = self.last_fresh_ms {
                        if self.obs >= 1 {
                            let gap = self.now - t;
                            self.min_gap = Some(self.min_gap.map_or(gap, |g| g.min(gap)));
                        }
                    }
                    self.recent.push((self.now, self.obs));
                    if let Some(t) = self.last_fresh_ms {
                        // the first sighting counts as an observed value (the statement asks for two strictly
                        // increasing values, not for two reports to the detector)
                        if self.obs >= 1 && self.now - t <= self.cfg.max_interval_ms {
                            self.usable += 1;
                        }
                    }
                    if let (Some(t), Some((a, bb))) = (self.last_fresh_ms, self.cfg.steady) {
                        let gap = self.now - t;
                        if gap < a || gap > bb {
                            self.last_gap_ok = false;
                        }
                    }
                    self.record = hb;
                    self.obs += 1;
                    self.last_fresh_ms = Some(self.now);
                    self.stats.inc("fresh_heartbeats");
                } else {
                    // refused re-creation cannot happen for a strictly higher heartbeat
                    return Err(mk("C12", "C12.fresh_refused", format!("a strictly higher heartbeat {hb} did not (re)create the member")));
                }
                Ok(())
            }
            DetCmd::Stale { back, times, relayed } => {
                if self.record == 0 {
                    return Ok(());
                }
                // down to 0: what a relay advertises that has the member but nothing on record for it
                let hb = self.record.saturating_sub(*back);
                let b = syn(&self.x, hb, if *relayed { Some(&self.other) } else { None });
                for _ in 0..(*times).max(1) {
                    self.deliver(1, &b)?;
                    self.stats.inc("stale_digests");
                }
                if *relayed {
                    self.stats.inc("relayed_digests");
                }
                Ok(())
            }
            DetCmd::Catchup { bump } => {
                let rid = self.x.to_real();
                let Some(cur) = self.n2.node_state(&rid).map(|ns| (ns.max_version(), ns.last_gc_version())) else { return Ok(()) };
                let mv = cur.0 + (*bump).max(1);
                let _g = self.rt.enter();
                for n in [&mut self.n1, &mut self.n2] {
                    let kv = ("k".to_string(), chitchat::VersionedValue { value: format!("v{mv}"), version: mv, status: chitchat::DeletionStatus::Set });
                    let rid2 = rid.clone();
                    guarded(|| n.reset_node_state_if_update(&rid2, vec![kv].into_iter(), mv, cur.1)).map_err(|p| mk("C11", "C11.panic", format!("catch-up panicked: {p}")))?;
                }
                self.stats.inc("catchups");
                Ok(())
            }
            DetCmd::Evaluate => {
                {
                    let _g = self.rt.enter();
                    let (n1, n2) = (&mut self.n1, &mut self.n2);
                    guarded(|| {
                        n1.verif_update_nodes_liveness();
                        n2.verif_update_nodes_liveness();
                    })
                    .map_err(|p| mk("C10", "C10.panic", format!("evaluation panicked: {p}")))?;
                }
                let (c1, c2) = (self.class(&self.n1), self.class(&self.n2));
                self.trace.u(self.now);
                self.trace.u((c2.0 as u64) * 4 + (c2.1 as u64) * 2 + c2.2 as u64);
                self.stats.inc("evaluations");
                self.nontrivial_c11 = true;
                if c1 != c2 && self.prop != "C10" {
                    return Err(mk(
                        "C11",
                        "C11.stale_counts",
                        format!("at t={}: observer with stale digests sees (live, dead, known) = {c1:?}, observer with fresh ones only sees {c2:?}", self.now),
                    ));
                }
                let (live, dead, known) = c2;
                if live {
                    self.stats.inc("live_verdicts");
                }
                // accuracy for a member that resumes: two fresh heartbeats since the previous
                // evaluation (neither of them the first sighting), at most max_interval apart, put
                // an interval into the window whatever that evaluation decided. Every sample and the
                // prior are at least min(smallest gap ever, initial interval), so is the smoothed
                // mean, and the member has to be live while the silence since the second one is
                // within phi_threshold times that (the steady clause with a = that minimum).
                if self.prop == "C11" {
                    if let [.., (t1, obs1), (t2, _)] = self.recent[..] {
                        let floor = self.min_gap.unwrap_or(0).min(self.cfg.initial_interval_ms) as f64;
                        if obs1 >= 1 && t2 - t1 <= self.cfg.max_interval_ms && floor > 0.0 && ((self.now - t2) as f64) <= self.cfg.phi * floor * (1.0 - 1e-6) {
                            self.stats.inc("resumed_evaluations");
                            if !(known && live) {
                                return Err(mk(
                                    "C11",
                                    "C11.resumed_not_live",
                                    format!(
                                        "two fresh heartbeats at {t1} and {t2} ms since the previous evaluation, evaluation at {} ms, phi {}, smallest interval ever {} ms, initial {} ms: member {}",
                                        self.now,
                                        self.cfg.phi,
                                        self.min_gap.unwrap_or(0),
                                        self.cfg.initial_interval_ms,
                                        if known { "not live" } else { "not even known" }
                                    ),
                                ));
                            }
                        }
                    }
                }
                self.recent.clear();
                if known && live && self.usable == 0 && (self.prop == "C10" || self.prop == "C11") {
                    let prop = self.prop.clone();
                    return Err(mk(&prop, &format!("{prop}.live_without_usable_interval"), format!("member live at t={} although no inter-arrival interval within max_interval was observed since it was last found dead ({} observations overall)", self.now, self.obs)));
                }
                if known && !live {
                    self.usable = 0;
                }
                if known && live && self.obs < 2 {
                    return Err(mk("C11", "C11.live_too_early", format!("member live after {} strictly increasing heartbeat value(s)", self.obs)));
                }
                if known {
                    if let Some(t) = self.last_fresh_ms {
                        let silent = (self.now - t) as f64;
                        let bound = self.cfg.phi * (self.cfg.max_interval_ms.max(self.cfg.initial_interval_ms) as f64);
                        if silent > bound * (1.0 + 1e-6) {
                            self.nontrivial_c10 = true;
                            self.stats.inc("evaluations_beyond_bound");
                            if live || !dead {
                                return Err(mk("C10", "C10.not_detected", format!("member still live {silent} ms after its last fresh heartbeat (bound {bound} ms)")));
                            }
                            // the observer that also receives equal, lower and replayed heartbeats
                            if c1.2 && (c1.0 || !c1.1) {
                                return Err(mk(
                                    "C10",
                                    "C10.not_detected",
                                    format!("member still live {silent} ms after its last fresh heartbeat (bound {bound} ms) on the observer that also receives stale and replayed heartbeats"),
                                ));
                            }
                        }
                        // accuracy: steady fresh heartbeats are never flagged
                        if let Some((a, b)) = self.cfg.steady {
                            let ok_cfg = b <= self.cfg.max_interval_ms && self.cfg.phi >= (1.0 + 1e-6) * (b as f64) / (a.min(self.cfg.initial_interval_ms) as f64);
                            if ok_cfg && self.last_gap_ok && self.obs >= 3 && (self.now - t) <= b {
                                self.stats.inc("steady_evaluations");
                                if !live {
                                    return Err(mk(
                                        "C11",
                                        "C11.steady_flagged",
                                        format!("fresh heartbeats every [{a}, {b}] ms, phi {}, initial {} ms: flagged dead {} ms after the last one ({} observations)", self.cfg.phi, self.cfg.initial_interval_ms, self.now - t, self.obs),
                                    ));
                                }
                            }
                        }
                    }
                } else {
                    // removed: observation count restarts when it is created again
                    self.obs = 0;
                    self.usable = 0;
                    self.last_gap_ok = true;
                    self.last_fresh_ms = None;
                    self.min_gap = None;
                    self.stats.inc("probe_member_removed");
                }
                Ok(())
            }
        }
    }
}

fn gen(seed: u64) -> (DetCfg, Vec<DetCmd>) {
    let mut r = Rng::new(seed);
    let unit: u64 = *r.pick(&[10u64, 100, 1000]);
    let max_interval = unit * r.range(2, 20);
    let initial = unit * r.range(1, 10);
    let phi = *r.pick(&[0.5, 1.0, 2.0, 4.0, 8.0, 16.0]);
    let window = *r.pick(&[1usize, 2, 3, 10, 1000]);
    let dead_grace = unit * r.range(50, 400);
    let mode = r.below(3);
    let a = unit * r.range(1, 3);
    let b = (a * r.range(1, 3)).min(max_interval);
    let a = a.min(b);
    let steady = if mode == 0 { Some((a, b)) } else { None };
    let cfg = DetCfg { phi, window, max_interval_ms: max_interval, initial_interval_ms: initial, dead_grace_ms: dead_grace, steady };
    let bound = (phi * max_interval.max(initial) as f64) as u64;
    let mut cmds = Vec::new();
    let steps = if r.chance(0.05) { r.range(400, 2000) } else { r.range(10, 200) };
    for _ in 0..steps {
        let dt = match mode {
            0 => r.range(a, b),
            1 => *r.pick(&[0u64, 1, a, b, max_interval, max_interval + 1, bound, bound + 1, 2 * bound + 5, dead_grace, dead_grace + 1]),
            _ => {
                if r.chance(0.8) {
                    r.range(a, b)
                } else {
                    r.range(0, 2 * bound + 2)
                }
            }
        };
        // evaluation somewhere inside the gap, stale digests around it
        if r.chance(0.6) {
            let off = r.range(0, dt);
            cmds.push(DetCmd::Advance { ms: off });
            if r.chance(0.5) {
                cmds.push(DetCmd::Stale { back: if r.chance(0.15) { 1 << 40 } else { r.below(4) }, times: r.range(1, 3) as u8, relayed: r.chance(0.3) });
            }
            cmds.push(DetCmd::Evaluate);
            cmds.push(DetCmd::Advance { ms: dt - off });
        } else {
            cmds.push(DetCmd::Advance { ms: dt });
        }
        cmds.push(DetCmd::Fresh { inc: r.range(1, 4) });
        if r.chance(0.05) {
            cmds.push(DetCmd::Catchup { bump: r.range(1, 3) });
        }
        if r.chance(0.4) {
            cmds.push(DetCmd::Stale { back: if r.chance(0.15) { 1 << 40 } else { r.below(6) }, times: 1, relayed: r.chance(0.3) });
        }
    }
    cmds.push(DetCmd::Evaluate);
    (cfg, cmds)
}

fn execute(cfg: &DetCfg, cmds: &[DetCmd], log: bool, prop: &str) -> (Outcome, Vec<String>) {
    let mut w = Dw::new(cfg);
    w.prop = prop.to_string();
    let mut v = None;
    for c in cmds {
        if let Err(e) = w.apply(c, log) {
            v = Some(e);
            break;
        }
    }
    let nontrivial = if prop == "C10" { w.nontrivial_c10 } else { w.nontrivial_c11 };
    let mut o = Outcome { trace: w.trace.0, stats: w.stats.clone(), steps: w.step as u64, sim_ms: w.now, nontrivial, ..Default::default() };
    match v {
        Some(v) if v.property == prop => o.violation = Some(v),
        Some(v) => o.foreign_abort = Some(format!("{}: {}", v.code, v.detail)),
        None => {}
    }
    (o, w.log)
}

pub struct Detector;

impl Engine for Detector {
    fn name(&self) -> &'static str {
        "E3-detector"
    }
    fn generate(&self, seed: u64, prop: &str) -> RunRecord {
        let (cfg, cmds) = gen(seed);
        crate::abort::tee_cfg("E3-detector", "bursty", &serde_json::to_value(&cfg).unwrap());
        crate::abort::tee_cmds(&cmds);
        let (outcome, _) = execute(&cfg, &cmds, false, prop);
        RunRecord { engine: "E3-detector", profile: if cfg.steady.is_some() { "steady".into() } else { "bursty".into() }, cfg: serde_json::to_value(&cfg).unwrap(), cmds: cmds.iter().map(|c| serde_json::to_value(c).unwrap()).collect(), outcome }
    }
    fn replay(&self, cfg: &Value, cmds: &[Value], prop: &str, log: bool) -> (Outcome, Vec<String>) {
        let cfg: DetCfg = serde_json::from_value(cfg.clone()).expect("detector config");
        let cmds: Vec<DetCmd> = cmds.iter().filter_map(|c| serde_json::from_value(c.clone()).ok()).collect();
        execute(&cfg, &cmds, log, prop)
    }
    fn real_components(&self) -> Vec<&'static str> {
        vec!["chitchat/src/failure_detector.rs", "chitchat/src/lib.rs report_heartbeat / update_nodes_liveness", "chitchat/src/state.rs try_set_heartbeat"]
    }
    fn stub_components(&self) -> Vec<&'static str> {
        vec!["the observed member exists only as heartbeats inside crafted SYN digests"]
    }
}
