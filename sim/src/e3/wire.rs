//! C08 synthetic peer: messages built only by the independent encoder (all kinds, block plans,
//! string length classes, IPv6 ids) are fed to the real decoder and to a real node.

use std::collections::BTreeMap;
use std::net::SocketAddr;

use chitchat::{ChitchatMessage, Deserializable, Serializable};
use serde::{Deserialize, Serialize};
use serde_json::Value;

use super::solo::{Solo, SoloCfg};
use crate::codec::{self, BlockPlan, Id, Kv, Msg, NodeDigest, Op};
use crate::common::{guarded, Outcome, Stats, ValSpec, Violation};
use crate::e1::world::kind_of;
use crate::engine::{Engine, RunRecord};
use crate::rng::{Rng, Trace};

#[derive(Clone, Debug, Serialize, Deserialize)]
pub struct WCfg {}

#[derive(Clone, Debug, Serialize, Deserialize)]
pub struct IdSpec {
    pub name_len: usize,
    pub generation: u64,
    pub ipv6: bool,
    pub idx: u16,
    #[serde(default)]
    pub mapped: bool,
}

#[derive(Clone, Debug, Serialize, Deserialize)]
pub struct MemberSpec {
    pub id: IdSpec,
    pub hb: u64,
    pub gc: u64,
    pub mv: u64,
}

#[derive(Clone, Debug, Serialize, Deserialize)]
pub struct DeltaMember {
    pub id: IdSpec,
    pub gc: u64,
    pub from: u64,
    /// (key length, value spec, status); versions are assigned from+1, from+2, ...
    pub kvs: Vec<(usize, ValSpec, u8)>,
    pub setmax: Option<u64>,
}

#[derive(Clone, Debug, Serialize, Deserialize)]
pub enum WCmd {
    /// kind 0 SYN, 1 SYN-ACK, 2 ACK, 3 BadCluster; plan 0 auto, 1 raw, 2 zstd
    Message { kind: u8, digest: Vec<MemberSpec>, delta: Vec<DeltaMember>, cluster_len: usize, plan: u8, block: usize },
    /// a real node that advertises a link-local IPv6 address with this scope id (0: none) emits its
    /// SYN; the bytes must decode back to an equal message
    ScopedSelf { scope: u32 },
}

fn mk_id(s: &IdSpec) -> Id {
    let mut name = format!("w{}-", s.idx);
    let mut r = Rng::new(s.idx as u64 * 31 + s.name_len as u64);
    while name.len() < s.name_len {
        // mix in multi-byte characters
        if r.chance(0.1) && name.len() + 4 <= s.name_len {
            name.push('\u{1F600}');
        } else {
            name.push((b'a' + r.below(26) as u8) as char);
        }
    }
    let mut cut = s.name_len.min(name.len());
    while !name.is_char_boundary(cut) {
        cut -= 1;
    }
    name.truncate(cut);
    let addr: SocketAddr = if s.mapped {
        SocketAddr::new(std::net::IpAddr::V6(std::net::Ipv4Addr::new(10, 7, (s.idx / 250) as u8, (1 + s.idx % 250) as u8).to_ipv6_mapped()), 9000 + s.idx)
    } else if s.ipv6 { format!("[2001:db8::{:x}]:{}", s.idx + 1, 9000 + s.idx).parse().unwrap() } else { format!("10.7.{}.{}:{}", s.idx / 250, 1 + s.idx % 250, 9000 + s.idx).parse().unwrap() };
    Id { node_id: name, generation: s.generation, addr }
}

fn key_of(len: usize, i: usize) -> String {
    let mut k = format!("k{i}-");
    while k.len() < len {
        k.push('q');
    }
    k.truncate(len);
    k
}

struct Ww {
    solo: Solo,
    step: usize,
    stats: Stats,
    trace: Trace,
    log: Vec<String>,
    decided: u64,
    known: Vec<String>,
}

impl Ww {
    fn v(&self, code: &str, detail: String) -> Violation {
        Violation { property: "C08".into(), code: code.into(), step: self.step, detail, finding: String::new() }
    }

    /// C08 on what a node with a scoped address emits. Known finding KF-4: the scope id is part of
    /// `ChitchatId` equality but not of the wire format.
    fn scoped_self(&mut self, scope: u32) -> Result<(), Violation> {
        use chitchat::{Deserializable, Serializable};
        let step = self.step;
        let addr = std::net::SocketAddr::V6(std::net::SocketAddrV6::new(std::net::Ipv6Addr::new(0xfe80, 0, 0, 0, 0, 0, 0, 1), 7280, 0, scope));
        let id = Id { node_id: "scoped".into(), generation: 1, addr };
        let solo = Solo::new(SoloCfg { id, cluster: "c".into(), grace_ms: 10_000, dead_grace_ms: 100_000_000, phi: 8.0, window: 10, max_interval_ms: 10_000, initial_interval_ms: 5_000, predicate: false }, None);
        let real = {
            let _g = solo.rt.enter();
            solo.chit.verif_create_syn_message()
        };
        let bytes = real.serialize_to_vec();
        let mut cur = &bytes[..];
        let back = chitchat::ChitchatMessage::deserialize(&mut cur).map_err(|e| Violation { property: "C08".into(), code: "C08.decode".into(), step, detail: format!("real decoder rejects own output: {e}"), finding: String::new() })?;
        self.decided += 1;
        self.trace.u(scope as u64);
        self.trace.u(bytes.len() as u64);
        if back != real {
            let (b, r) = (format!("{back:?}"), format!("{real:?}"));
            if crate::e1::world::strip_scope(&b) == crate::e1::world::strip_scope(&r) {
                self.stats.inc("known_kf4");
                if self.known.len() < 4 {
                    self.known.push(format!("KF-4 the SYN of a node that advertises {addr} decodes to a message that names {} instead: the scope id of an IPv6 address is not on the wire", crate::e1::world::without_scope(addr)));
                }
            } else {
                return Err(Violation { property: "C08".into(), code: "C08.roundtrip".into(), step, detail: format!("SYN of a node at {addr} does not round-trip"), finding: String::new() });
            }
        }
        Ok(())
    }

    fn apply(&mut self, cmd: &WCmd, keep_log: bool) -> Result<(), Violation> {
        self.step += 1;
        if let WCmd::ScopedSelf { scope } = cmd {
            return self.scoped_self(*scope);
        }
        let WCmd::Message { kind, digest, delta, cluster_len, plan, block } = cmd else { return Ok(()) };
        let mut dmap: BTreeMap<Id, NodeDigest> = BTreeMap::new();
        for m in digest {
            dmap.insert(mk_id(&m.id), NodeDigest { heartbeat: m.hb, gc: m.gc, max: m.mv });
        }
        let dvec: Vec<(Id, NodeDigest)> = dmap.into_iter().collect();
        let mut ops = Vec::new();
        let mut seen = std::collections::HashSet::new();
        for dm in delta {
            let id = mk_id(&dm.id);
            if !seen.insert(id.clone()) {
                continue;
            }
            ops.push(Op::Node { id, gc: dm.gc, from: dm.from });
            let mut v = dm.from;
            for (i, (klen, val, st)) in dm.kvs.iter().enumerate() {
                v += 1;
                ops.push(Op::Kv(Kv { key: key_of(*klen, i), value: val.render(), version: v, status: *st % 3 }));
            }
            if let Some(m) = dm.setmax {
                ops.push(Op::SetMax(m.max(v)));
            }
        }
        let cluster = "c".repeat((*cluster_len).max(1));
        let msg = match kind % 4 {
            0 => Msg::Syn { digest: dvec, cluster: cluster.clone() },
            1 => Msg::SynAck { digest: dvec, ops },
            2 => Msg::Ack { ops },
            _ => Msg::BadCluster,
        };
        // tiny blocks only for small payloads (one zstd frame per block)
        let payload: usize = msg.ops().map(|ops| ops.iter().map(|op| match op { Op::Kv(kv) => kv.key.len() + kv.value.len() + 14, Op::Node { id, .. } => id.node_id.len() + 40, Op::SetMax(_) => 9 }).sum()).unwrap_or(0);
        let block = if payload > 4_000 && *block < 500 { &1_000usize } else { block };
        let bp = match plan % 3 {
            0 => BlockPlan::Auto { size: (*block).max(1) },
            1 => BlockPlan::Raw { size: (*block).max(1) },
            _ => BlockPlan::Zstd { size: (*block).max(1) },
        };
        let bytes = codec::encode(&msg, bp);
        if keep_log {
            self.log.push(format!("[{}] {} of {} bytes, {} digest entries, {} ops", self.step, msg.kind(), bytes.len(), msg.digest().map(|d| d.len()).unwrap_or(0), msg.ops().map(|o| o.len()).unwrap_or(0)));
        }
        self.trace.bytes(&bytes[..bytes.len().min(64)]);
        self.trace.u(bytes.len() as u64);
        if let Ok((_, info, _)) = codec::decode(&bytes) {
            if info.compressed_blocks > 0 {
                self.stats.inc("probe_compressed_block");
            }
            if info.raw_blocks > 0 {
                self.stats.inc("probe_uncompressed_block");
            }
            if info.compressed_blocks + info.raw_blocks > 1 {
                self.stats.inc("probe_multi_block_delta");
            }
        }
        // a damaged copy first: decoding the valid message afterwards must not depend on it
        if self.step % 2 == 0 && bytes.len() > 8 && (bytes.len() < 8_000 || self.step % 4 == 0) {
            let mut bad = bytes.clone();
            match self.step % 3 {
                0 => bad.truncate(bytes.len() - 1),
                1 => bad.truncate(bytes.len() * 2 / 3),
                _ => {
                    let i = bad.len() - 2;
                    bad[i] = 0xff;
                }
            }
            if guarded(|| {
                let mut c = &bad[..];
                ChitchatMessage::deserialize(&mut c).is_ok()
            })
            .is_err()
            {
                return Err(Violation { property: "C09".into(), code: "C09.decode_panic".into(), step: self.step, detail: "decoder panicked on a damaged datagram".into(), finding: String::new() });
            }
            self.stats.inc("damaged_datagram_decoded_before_valid_one");
        }
        // real decoder on independently encoded bytes
        let mut cur = &bytes[..];
        let real = match guarded(|| ChitchatMessage::deserialize(&mut cur)) {
            Err(p) => return Err(self.v("C08.decode_panic", format!("real decoder panicked on an independently encoded {}: {p}", msg.kind()))),
            Ok(Err(e)) => return Err(self.v("C08.indep_encode_rejected", format!("real decoder rejects an independently encoded {} of {} bytes: {e}", msg.kind(), bytes.len()))),
            Ok(Ok(m)) => m,
        };
        if !cur.is_empty() {
            return Err(self.v("C08.consumed", format!("real decoder left {} of {} bytes", cur.len(), bytes.len())));
        }
        if real.serialized_len() != bytes.len() {
            return Err(self.v("C08.len_after_decode", format!("decoded {} announces {} bytes for {} bytes", msg.kind(), real.serialized_len(), bytes.len())));
        }
        self.decided += 1;
        // the decoded message, as the real code prints it, carries the same content
        let dbg = if payload <= 20_000 { format!("{real:?}") } else { String::new() };
        if let Some(ops) = msg.ops() {
            for op in ops {
                if let Op::Kv(kv) = op {
                    if kv.value.len() >= 6 && kv.value.len() <= 300 && !kv.value.contains('"') && !kv.value.contains('\\') && kv.value.is_ascii() && !dbg.is_empty() && !dbg.contains(&kv.value) {
                        return Err(self.v("C08.content", format!("value of {:?}@{} not found in the decoded message", kv.key, kv.version)));
                    }
                }
            }
        }
        // feed it to a real node: the resulting state is what the structure implies
        if bytes.len() <= codec::MAX_DATAGRAM && matches!(msg, Msg::SynAck { .. }) {
            let before = self.solo.view();
            let reply = self.solo.send_bytes(&bytes);
            if let Err(p) = reply {
                return Err(self.v("C08.process_panic", format!("processing an independently encoded {} panicked: {p}", msg.kind())));
            }
            let after = self.solo.view();
            if let (Some(d), Some(ops)) = (msg.digest(), msg.ops()) {
                for (id, nd) in d {
                    if id == &self.solo.id {
                        continue;
                    }
                    let Some(c) = after.get(id) else {
                        return Err(self.v("C08.member_not_learned", format!("member {} of the digest is unknown to the receiver", id.short())));
                    };
                    let bhb = before.get(id).map(|c| c.hb).unwrap_or(0);
                    let reset = c.gc > before.get(id).map(|c| c.gc).unwrap_or(0);
                    if !reset && c.hb != bhb.max(if bhb == 0 { nd.heartbeat } else { nd.heartbeat.max(bhb) }) {
                        return Err(self.v("C08.heartbeat", format!("member {}: digest heartbeat {}, stored {} (was {})", id.short(), nd.heartbeat, c.hb, bhb)));
                    }
                }
                if let Some(groups) = codec::group_ops(ops) {
                    for g in groups {
                        let Some(b) = before.get(&g.id).map(|c| (c.gc, c.mv)).or_else(|| if d.iter().any(|(id, _)| id == &g.id) { Some((0, 0)) } else { None }) else { continue };
                        let Some(a) = after.get(&g.id) else { continue };
                        // fresh member, delta from 0 with watermark 0: the copy is exactly the delta
                        if b == (0, 0) && g.gc == 0 && g.from == 0 && g.max > 0 && g.id != self.solo.id {
                            let ns = self.solo.chit.node_state(&g.id.to_real()).unwrap();
                            if a.mv != g.max {
                                return Err(self.v("C08.applied_max", format!("member {}: delta max {}, copy max {}", g.id.short(), g.max, a.mv)));
                            }
                            let mut last: BTreeMap<&str, &Kv> = BTreeMap::new();
                            for kv in &g.kvs {
                                last.insert(kv.key.as_str(), kv);
                            }
                            for (k, kv) in last {
                                let Some(vv) = ns.get_versioned(k) else {
                                    return Err(self.v("C08.applied_missing", format!("member {}: key of length {} missing after applying", g.id.short(), k.len())));
                                };
                                if vv.value != kv.value || vv.version != kv.version || kind_of(&vv.status) != kv.status {
                                    return Err(self.v("C08.applied_differs", format!("member {}: key of length {} stored as @{} status {}, sent @{} status {}", g.id.short(), k.len(), vv.version, kind_of(&vv.status), kv.version, kv.status)));
                                }
                            }
                            self.stats.inc("synthetic_deltas_applied_and_compared");
                        }
                    }
                }
            }
            // and the node's reply decodes independently
            if let Ok(Some(super::solo::Reply::Bytes(rb, _))) = reply {
                if let Err(e) = codec::decode(&rb) {
                    return Err(self.v("C08.indep_decode", format!("independent decoder rejects the node's reply: {e}")));
                }
            }
        }
        // real re-encoding is only defined for messages the node itself builds; decoded deltas
        // record the byte count they were read from, so re-encode through the independent codec
        let _ = real.serialized_len();
        let _ = guarded(|| ());
        Ok(())
    }
}

fn gen(seed: u64) -> (WCfg, Vec<WCmd>) {
    let mut r = Rng::new(seed);
    let mut cmds = Vec::new();
    let lens = [0usize, 1, 2, 255, 256, 300, 16_383, 16_384, 16_385, 40_000];
    let mut ctr = 0u64;
    for _ in 0..r.range(1, 6) {
        let kind = r.below(4) as u8;
        let nd = if r.chance(0.1) { r.range(20, 200) } else { r.below(6) } as usize;
        let digest: Vec<MemberSpec> = (0..nd)
            .map(|i| MemberSpec {
                id: IdSpec { name_len: *r.pick(&[2usize, 3, 10, 255, 256, 300]), generation: *r.pick(&[0u64, 1, u64::MAX, 1 << 40]), ipv6: r.chance(0.4), idx: (i as u16) + 10 * (r.below(3) as u16), mapped: r.chance(0.1) },
                hb: *r.pick(&[1u64, 2, 1 << 33, u64::MAX - 1]),
                gc: r.below(5),
                mv: r.below(9),
            })
            .collect();
        let mut budget: usize = 60_000;
        // a legitimate "bomb": megabytes of highly compressible values fit one datagram once
        // compressed (the sender's budget is on compressed bytes), so the decoder must take them
        let bulk = kind != 0 && kind != 3 && r.chance(0.04);
        if bulk {
            let n = r.range(20, 120) as usize;
            let len = *r.pick(&[16_000u32, 40_000, 60_000]);
            let kvs: Vec<(usize, ValSpec, u8)> = (0..n)
                .map(|_| {
                    ctr += 1;
                    (5usize, ValSpec { class: 0, len, seed: (r.next() << 12) | ctr }, 0u8)
                })
                .collect();
            let dm = DeltaMember { id: IdSpec { name_len: 10, generation: 0, ipv6: false, idx: 100, mapped: false }, gc: 0, from: 0, kvs, setmax: None };
            let mut digest = digest;
            if kind == 1 {
                digest.push(MemberSpec { id: dm.id.clone(), hb: 3, gc: 0, mv: 0 });
            }
            cmds.push(WCmd::Message { kind, digest, delta: vec![dm], cluster_len: 1, plan: 0, block: 16_384 });
            continue;
        }
        let delta: Vec<DeltaMember> = (0..r.below(4))
            .map(|i| {
                let nk = if r.chance(0.2) { 0 } else { r.range(1, 6) };
                let kvs: Vec<(usize, ValSpec, u8)> = (0..nk)
                    .map(|_| {
                        ctr += 1;
                        let mut len = *r.pick(&lens);
                        if len + 40 > budget {
                            len = r.below(30) as usize;
                        }
                        budget = budget.saturating_sub(len + 40);
                        (*r.pick(&[0usize, 1, 5, 255, 256]).min(&budget.max(1)), ValSpec { class: r.below(4) as u8, len: len as u32, seed: (r.next() << 12) | ctr }, r.below(3) as u8)
                    })
                    .collect();
                DeltaMember {
                    id: IdSpec { name_len: *r.pick(&[2usize, 10, 300]), generation: r.below(2), ipv6: r.chance(0.4), idx: 100 + i as u16, mapped: r.chance(0.1) },
                    gc: if r.chance(0.7) { 0 } else { r.below(4) },
                    from: if r.chance(0.7) { 0 } else { r.below(4) },
                    kvs,
                    setmax: if nk == 0 || r.chance(0.1) { Some(r.range(1, 9)) } else { None },
                }
            })
            .collect();
        // make the digest of a SYN-ACK list the delta's members so that a real node applies them
        let mut digest = digest;
        if kind == 1 {
            for dm in &delta {
                digest.push(MemberSpec { id: dm.id.clone(), hb: 3, gc: 0, mv: 0 });
            }
        }
        cmds.push(WCmd::Message { kind, digest, delta, cluster_len: *r.pick(&[1usize, 15, 255, 256]), plan: r.below(3) as u8, block: *r.pick(&[1usize, 7, 100, 1000, 16_383, 16_384, 16_385, 40_000, 65_535]) });
    }
    if r.chance(0.03) {
        cmds.push(WCmd::ScopedSelf { scope: *r.pick(&[0u32, 1, 2, 7, u32::MAX]) });
    }
    (WCfg {}, cmds)
}

fn execute(cmds: &[WCmd], log: bool, prop: &str) -> (Outcome, Vec<String>) {
    let id = Id { node_id: "wire".into(), generation: 0, addr: "10.7.255.1:7000".parse().unwrap() };
    let solo = Solo::new(SoloCfg { id, cluster: "c".into(), grace_ms: 10_000, dead_grace_ms: 100_000_000, phi: 8.0, window: 10, max_interval_ms: 10_000, initial_interval_ms: 5_000, predicate: false }, None);
    let mut w = Ww { solo, step: 0, stats: Stats::default(), trace: Trace::default(), log: Vec::new(), decided: 0, known: Vec::new() };
    let mut v = None;
    for c in cmds {
        if let Err(e) = w.apply(c, log) {
            v = Some(e);
            break;
        }
    }
    let mut o = Outcome { trace: w.trace.0, stats: w.stats.clone(), steps: w.step as u64, sim_ms: 0, nontrivial: w.decided > 0, known_hits: w.known.clone(), ..Default::default() };
    match v {
        Some(v) if v.property == prop => o.violation = Some(v),
        Some(v) => o.foreign_abort = Some(format!("{}: {}", v.code, v.detail)),
        None => {}
    }
    (o, w.log)
}

pub struct Wire;

impl Engine for Wire {
    fn name(&self) -> &'static str {
        "E3-wire"
    }
    fn generate(&self, seed: u64, prop: &str) -> RunRecord {
        let (cfg, cmds) = gen(seed);
        crate::abort::tee_cfg("E3-wire", "synthetic_peer", &serde_json::to_value(&cfg).unwrap());
        crate::abort::tee_cmds(&cmds);
        let (outcome, _) = execute(&cmds, false, prop);
        RunRecord { engine: "E3-wire", profile: "synthetic_peer".into(), cfg: serde_json::to_value(&cfg).unwrap(), cmds: cmds.iter().map(|c| serde_json::to_value(c).unwrap()).collect(), outcome }
    }
    fn replay(&self, _cfg: &Value, cmds: &[Value], prop: &str, log: bool) -> (Outcome, Vec<String>) {
        let cmds: Vec<WCmd> = cmds.iter().filter_map(|c| serde_json::from_value(c.clone()).ok()).collect();
        execute(&cmds, log, prop)
    }
    fn real_components(&self) -> Vec<&'static str> {
        vec!["chitchat/src/message.rs, digest.rs, delta.rs, serialize.rs decoders", "chitchat/src/lib.rs process_message on the decoded message"]
    }
    fn stub_components(&self) -> Vec<&'static str> {
        vec!["the sending side is the independent encoder (sim/src/codec.rs)"]
    }
}
