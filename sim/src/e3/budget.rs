//! C07 directed engine: one real node, synthetic peers, probes over digests and size budgets.
//! The node's replies are produced by the real process_message (SYN -> SYN-ACK, SYN-ACK -> ACK)
//! and, for arbitrary budgets, by compute_partial_delta_respecting_mtu through the facade.

use std::collections::BTreeMap;
use std::net::SocketAddr;

use serde::{Deserialize, Serialize};
use serde_json::Value;

use super::solo::{Reply, Solo, SoloCfg};
use crate::codec::{self, BlockPlan, Id, Kv, Msg, NodeDigest, Op};
use crate::common::{Outcome, Stats, ValSpec, Violation};
use crate::e1::types::WriteOp;
use crate::engine::{Engine, RunRecord};
use crate::rng::{Rng, Trace};

#[derive(Clone, Debug, Serialize, Deserialize)]
pub struct BCfg {
    pub self_id_len: usize,
    pub member_id_lens: Vec<usize>,
    pub ipv6: bool,
    /// ids with random generations, random address bytes and mixed-script node ids (little for zstd to gain)
    #[serde(default)]
    pub high_entropy: bool,
    pub grace_ms: u64,
    pub dead_grace_ms: u64,
}

#[derive(Clone, Debug, Serialize, Deserialize)]
pub enum BCmd {
    Write { op: WriteOp, key: String, val: ValSpec },
    /// crafted SYN whose digest lists these members with heartbeat hb
    Learn { members: Vec<usize>, hb: u64 },
    /// crafted ACK giving the node data about a synthetic member, appended after its current max version
    Feed { member: usize, kvs: Vec<(String, ValSpec, u8)>, gc: u64 },
    /// crafted SYN with these digest claims (member index, watermark, max version)
    SynProbe { claims: Vec<(usize, u64, u64)> },
    /// crafted SYN-ACK with an empty delta and these digest claims; the node answers with an ACK
    AckProbe { claims: Vec<(usize, u64, u64)> },
    /// facade: delta for these claims under an explicit byte budget
    DeltaProbe { claims: Vec<(usize, u64, u64)>, mtu: usize },
    /// as DeltaProbe, with the budget derived at run time from the untruncated delta: the budget at
    /// which its `op_pick`-th operation lands exactly on the limit, plus `d` bytes
    BoundaryProbe { claims: Vec<(usize, u64, u64)>, op_pick: u32, d: i8 },
    Advance { ms: u64 },
    Gc,
    Evaluate,
}

fn mk_id(len: usize, idx: usize, ipv6: bool, high_entropy: bool) -> Id {
    let mut s = format!("m{idx}");
    let mut r = Rng::new(idx as u64 + 77);
    while s.len() < len {
        if high_entropy {
            // printable ASCII and 2-byte characters, so byte values spread out
            let c = if r.chance(0.3) { char::from_u32(0xa1 + r.below(0x6ff - 0xa1) as u32).unwrap_or('x') } else { (0x21 + r.below(0x5e) as u8) as char };
            s.push(c);
        } else {
            s.push((b'a' + r.below(26) as u8) as char);
        }
    }
    let mut cut = len.max(2).min(s.len());
    while !s.is_char_boundary(cut) {
        cut -= 1;
    }
    s.truncate(cut);
    let port = 7000 + idx as u16;
    let addr: SocketAddr = if high_entropy {
        if ipv6 {
            let g: Vec<u16> = (0..8).map(|_| 1 + r.below(0xfffe) as u16).collect();
            SocketAddr::new(std::net::IpAddr::V6(std::net::Ipv6Addr::new(g[0], g[1], g[2], g[3], g[4], g[5], g[6], g[7])), 1 + r.below(65_000) as u16)
        } else {
            SocketAddr::new(std::net::IpAddr::V4(std::net::Ipv4Addr::new(1 + r.below(254) as u8, r.below(256) as u8, r.below(256) as u8, 1 + r.below(254) as u8)), 1 + r.below(65_000) as u16)
        }
    } else if ipv6 {
        format!("[fd00::{:x}]:{}", idx + 1, port).parse().unwrap()
    } else {
        format!("10.1.0.{}:{}", idx + 1, port).parse().unwrap()
    };
    let generation = if high_entropy { r.next() } else { 0 };
    Id { node_id: s, generation, addr }
}

struct Bw {
    solo: Solo,
    ids: Vec<Id>,
    stats: Stats,
    trace: Trace,
    step: usize,
    nontrivial: bool,
    log: Vec<String>,
    keep_log: bool,
    high_entropy: bool,
}

impl Bw {
    fn new(cfg: &BCfg, keep_log: bool) -> Bw {
        let mut ids = vec![mk_id(cfg.self_id_len, 0, cfg.ipv6, cfg.high_entropy)];
        for (i, l) in cfg.member_id_lens.iter().enumerate() {
            ids.push(mk_id(*l, i + 1, cfg.ipv6, cfg.high_entropy));
        }
        let solo = Solo::new(
            SoloCfg {
                id: ids[0].clone(),
                cluster: "c".into(),
                grace_ms: cfg.grace_ms,
                dead_grace_ms: cfg.dead_grace_ms,
                phi: 8.0,
                window: 10,
                max_interval_ms: 10_000,
                initial_interval_ms: 5_000,
                predicate: false,
            },
            None,
        );
        Bw { solo, ids, stats: Stats::default(), trace: Trace::default(), step: 0, nontrivial: false, log: Vec::new(), keep_log, high_entropy: cfg.high_entropy }
    }

    fn viol(&self, code: &str, detail: String) -> Violation {
        Violation { property: "C07".into(), code: code.into(), step: self.step, detail, finding: String::new() }
    }

    fn digest_of(&self, claims: &[(usize, u64, u64)]) -> Vec<(Id, NodeDigest)> {
        let mut d: BTreeMap<Id, NodeDigest> = BTreeMap::new();
        for (m, gc, mv) in claims {
            if let Some(id) = self.ids.get(*m) {
                d.insert(id.clone(), NodeDigest { heartbeat: 1, gc: *gc, max: *mv });
            }
        }
        d.into_iter().collect()
    }

    fn check_reply(&mut self, what: &str, bytes_len: usize, msg: &Msg, claims: &[(usize, u64, u64)], budget: Option<usize>) -> Result<(), Violation> {
        let answers: BTreeMap<Id, (u64, u64)> = claims.iter().filter_map(|(m, gc, mv)| self.ids.get(*m).map(|id| (id.clone(), (*gc, *mv)))).collect();
        let Some(ops) = msg.ops() else { return Ok(()) };
        let Some(deltas) = codec::group_ops(ops) else {
            return Err(self.viol("C07.malformed", format!("{what}: op stream no decoder accepts")));
        };
        self.trace.u(bytes_len as u64);
        self.trace.u(deltas.len() as u64);
        let own_digest = msg.digest().map(|d| codec::digest_len(d)).unwrap_or(0);
        self.stats.max("max_reply_len", bytes_len as u64);
        if let Some(b) = budget {
            if bytes_len > b {
                return Err(self.viol("C07.budget", format!("{what}: delta of {bytes_len} bytes for a budget of {b}")));
            }
            if bytes_len + 8 > b {
                self.stats.inc("probe_reply_within_8_of_budget");
            }
        } else {
            if bytes_len + 8 > codec::MAX_DATAGRAM {
                self.stats.inc("probe_reply_within_8_of_limit");
            }
            if bytes_len > codec::MAX_DATAGRAM && own_digest + 4 + 100 <= codec::MAX_DATAGRAM {
                return Err(self.viol("C07.size", format!("{what} of {bytes_len} bytes (own digest {own_digest} bytes) exceeds 65,507")));
            }
        }
        let view = self.solo.view();
        let scheduled = self.solo.scheduled();
        if !scheduled.is_empty() {
            self.stats.inc("probe_reply_while_member_scheduled");
        }
        if !deltas.is_empty() {
            self.nontrivial = true;
            self.stats.inc("replies_with_delta");
        }
        match crate::c07::check_deltas("node", &self.solo.chit, &view, &scheduled, &answers, &deltas) {
            Ok(rep) => {
                if rep.truncated {
                    self.stats.inc("probe_mtu_truncation");
                }
            }
            Err((code, detail)) => return Err(self.viol(&code, format!("{what}: {detail}"))),
        }
        if let Ok((_, info, _)) = codec::decode(&codec::encode(msg, BlockPlan::Auto { size: 16_384 })) {
            let _ = info;
        }
        Ok(())
    }

    fn apply(&mut self, cmd: &BCmd) -> Result<(), Violation> {
        self.step += 1;
        if self.keep_log {
            self.log.push(format!("[{}] {:?}", self.step, cmd));
        }
        match cmd {
            BCmd::Write { op, key, val } => {
                let value = val.render();
                let _g = self.solo.rt.enter();
                let chit = &mut self.solo.chit;
                let r = crate::common::guarded(|| {
                    let ns = chit.self_node_state();
                    match op {
                        WriteOp::Set => ns.set(key, &value),
                        WriteOp::SetTtl => ns.set_with_ttl(key, &value),
                        WriteOp::Delete => ns.delete(key),
                        WriteOp::DeleteTtl => ns.delete_after_ttl(key),
                    }
                });
                drop(_g);
                if let Err(p) = r {
                    return Err(Violation { property: "C15".into(), code: "C15.panic".into(), step: self.step, detail: p, finding: String::new() });
                }
                Ok(())
            }
            BCmd::Learn { members, hb } => {
                let digest: Vec<(Id, NodeDigest)> =
                    members.iter().filter_map(|m| self.ids.get(*m)).map(|id| (id.clone(), NodeDigest { heartbeat: *hb, gc: 0, max: 0 })).collect::<BTreeMap<_, _>>().into_iter().collect();
                let claims: Vec<(usize, u64, u64)> = members.iter().map(|m| (*m, 0, 0)).collect();
                let msg = Msg::Syn { digest, cluster: self.solo.cluster.clone() };
                match self.solo.send(&msg, BlockPlan::Auto { size: 16_384 }) {
                    Err(p) => Err(self.viol("C07.panic", format!("SYN processing panicked: {p}"))),
                    Ok(Some(Reply::Bytes(b, m))) => self.check_reply("SYN-ACK", b.len(), &m, &claims, None),
                    _ => Ok(()),
                }
            }
            BCmd::Feed { member, kvs, gc } => {
                let Some(id) = self.ids.get(*member).cloned() else { return Ok(()) };
                if *member == 0 {
                    return Ok(());
                }
                let view = self.solo.view();
                let Some(copy) = view.get(&id) else { return Ok(()) };
                let mut ops = vec![Op::Node { id: id.clone(), gc: (*gc).min(copy.mv).max(copy.gc), from: copy.mv }];
                let mut v = copy.mv;
                if v == 0 && self.high_entropy {
                    // versions with all bytes in use
                    v = 0x0101_0101_0101_0101u64.wrapping_mul(1 + (*member as u64 % 120));
                }
                for (k, val, status) in kvs {
                    v += 1;
                    ops.push(Op::Kv(Kv { key: k.clone(), value: val.render(), version: v, status: *status % 3 }));
                }
                let msg = Msg::Ack { ops };
                if codec::encode(&msg, BlockPlan::Auto { size: 16_384 }).len() > codec::MAX_DATAGRAM {
                    return Ok(());
                }
                match self.solo.send(&msg, BlockPlan::Auto { size: 16_384 }) {
                    Err(p) => Err(self.viol("C07.panic", format!("ACK processing panicked: {p}"))),
                    _ => Ok(()),
                }
            }
            BCmd::SynProbe { claims } => {
                let msg = Msg::Syn { digest: self.digest_of(claims), cluster: self.solo.cluster.clone() };
                match self.solo.send(&msg, BlockPlan::Auto { size: 16_384 }) {
                    Err(p) => Err(self.viol("C07.panic", format!("SYN processing panicked: {p}"))),
                    Ok(Some(Reply::Bytes(b, m))) => self.check_reply("SYN-ACK", b.len(), &m, claims, None),
                    _ => Ok(()),
                }
            }
            BCmd::AckProbe { claims } => {
                let msg = Msg::SynAck { digest: self.digest_of(claims), ops: vec![] };
                match self.solo.send(&msg, BlockPlan::Auto { size: 16_384 }) {
                    Err(p) => Err(self.viol("C07.panic", format!("SYN-ACK processing panicked: {p}"))),
                    Ok(Some(Reply::Bytes(b, m))) => self.check_reply("ACK", b.len(), &m, claims, None),
                    _ => Ok(()),
                }
            }
            BCmd::BoundaryProbe { claims, op_pick, d } => {
                let mut db = Vec::new();
                codec::put_digest(&mut db, &self.digest_of(claims));
                let full = {
                    let _g = self.solo.rt.enter();
                    let chit = &self.solo.chit;
                    crate::common::guarded(|| chit.verif_compute_delta(&db, 65_507))
                };
                let Ok(Ok(bytes)) = full else { return Ok(()) };
                let mut framed = vec![];
                codec::put_u16(&mut framed, codec::MAGIC);
                framed.push(0);
                framed.push(2);
                framed.extend_from_slice(&bytes);
                let Ok((m, _, _)) = codec::decode(&framed) else { return Ok(()) };
                let ops = m.ops().cloned().unwrap_or_default();
                if ops.is_empty() {
                    return Ok(());
                }
                // half of the time aim at an operation kind picked by the low bits (member header,
                // key-value, max-version), so that rare kinds get their share of boundaries
                let want = (*op_pick >> 8) % 6;
                let of_kind: Vec<usize> = ops
                    .iter()
                    .enumerate()
                    .filter(|(_, op)| match (want, op) {
                        (0, Op::Node { .. }) | (1, Op::Kv(_)) | (2, Op::SetMax(_)) => true,
                        _ => false,
                    })
                    .map(|(i, _)| i)
                    .collect();
                let i = if of_kind.is_empty() { (*op_pick as usize) % ops.len() } else { of_kind[(*op_pick as usize) % of_kind.len()] };
                let mut cum = 0usize;
                for op in ops.iter().take(i + 1) {
                    let mut b = Vec::new();
                    codec::put_op(&mut b, op);
                    cum += b.len();
                }
                let blocks = cum / 16_384 + 1;
                let mtu = ((3 * blocks + cum + 1) as i64 + *d as i64).clamp(100, 65_507) as usize;
                self.stats.inc("boundary_probes");
                let c = BCmd::DeltaProbe { claims: claims.clone(), mtu };
                self.step -= 1;
                self.apply(&c)
            }
            BCmd::DeltaProbe { claims, mtu } => {
                let mut db = Vec::new();
                codec::put_digest(&mut db, &self.digest_of(claims));
                let mtu = (*mtu).clamp(100, 65_507);
                let r = {
                    let _g = self.solo.rt.enter();
                    let chit = &self.solo.chit;
                    crate::common::guarded(|| chit.verif_compute_delta(&db, mtu))
                };
                match r {
                    Err(p) => Err(self.viol("C07.panic", format!("delta computation panicked for budget {mtu}: {p}"))),
                    Ok(Err(_)) => Ok(()),
                    Ok(Ok(bytes)) => {
                        // wrap as an ACK so the independent decoder can read the stream
                        let mut framed = Vec::new();
                        codec::put_u16(&mut framed, codec::MAGIC);
                        framed.push(0);
                        framed.push(2);
                        framed.extend_from_slice(&bytes);
                        match codec::decode(&framed) {
                            Ok((m, _, _)) => self.check_reply(&format!("delta(mtu {mtu})"), bytes.len(), &m, claims, Some(mtu)),
                            Err(e) => Err(self.viol("C07.malformed", format!("delta for budget {mtu} does not decode: {e}"))),
                        }
                    }
                }
            }
            BCmd::Advance { ms } => {
                self.solo.advance((*ms).min(100_000_000));
                Ok(())
            }
            BCmd::Gc => self.solo.gc().map_err(|p| self.viol("C07.panic", p)),
            BCmd::Evaluate => self.solo.evaluate().map_err(|p| self.viol("C07.panic", p)),
        }
    }
}

fn gen_claims(r: &mut Rng, w: &Bw) -> Vec<(usize, u64, u64)> {
    let view = w.solo.view();
    let mut claims = Vec::new();
    for (m, id) in w.ids.iter().enumerate() {
        let Some(c) = view.get(id) else { continue };
        match r.below(7) {
            0 => {} // peer does not know the member
            1 => claims.push((m, 0, 0)),
            2 => claims.push((m, c.gc, c.mv)),
            3 => claims.push((m, c.gc, c.mv.saturating_sub(r.range(1, 4)))),
            4 => claims.push((m, c.gc.saturating_sub(1), r.below(c.mv + 2))),
            5 => claims.push((m, r.below(c.gc + 2), r.below(c.mv + 2))),
            _ => claims.push((m, c.gc + r.below(3), c.mv + r.below(3))),
        }
    }
    claims
}

fn run(seed: u64, keep_log: bool) -> (BCfg, Vec<BCmd>, Bw, Option<Violation>) {
    let mut r = Rng::new(seed);
    let regime = r.below(5);
    let ipv6 = r.chance(0.3) || std::env::var("DEBUG_V6").is_ok();
    let per_member_fixed = 2 + 8 + if ipv6 { 19 } else { 7 } + 24;
    let self_len = *r.pick(&[2usize, 6, 40, 300]);
    let member_id_lens: Vec<usize> = match regime {
        0 | 1 => {
            // tight digest: long synthetic ids
            let k = r.range(1, 5) as usize;
            let target = *r.pick(&[40_000usize, 60_000, 64_000, 65_000, 65_200, 65_300, 65_380, 65_390]) + r.usize_below(12);
            let rest = target.saturating_sub(2 + (k + 1) * per_member_fixed + self_len);
            let per = (rest / k).clamp(2, 65_000);
            let mut v = vec![per; k];
            // spread the remainder so that the digest lands on the target exactly
            v[0] = (per + rest - per * k).min(65_000);
            v
        }
        2 => (0..r.range(5, 40)).map(|_| r.range(2, 30) as usize).collect(),
        _ => (0..r.range(0, 4)).map(|_| r.range(2, 20) as usize).collect(),
    };
    let cfg = BCfg { self_id_len: self_len, member_id_lens, ipv6, high_entropy: r.chance(0.5), grace_ms: 10_000, dead_grace_ms: *r.pick(&[20_000u64, 100_000_000]) };
    crate::abort::tee_cfg("E3-budget", "budget", &serde_json::to_value(&cfg).unwrap());
    let mut w = Bw::new(&cfg, keep_log);
    let mut cmds: Vec<BCmd> = Vec::new();
    let mut violation = None;
    let nm = cfg.member_id_lens.len();
    macro_rules! go {
        ($c:expr) => {{
            let c = $c;
            crate::abort::tee_cmd(&c);
            let res = w.apply(&c);
            cmds.push(c);
            if let Err(v) = res {
                violation = Some(v);
            }
            violation.is_none()
        }};
    }
    let mut ok = go!(BCmd::Learn { members: (1..=nm).collect(), hb: 1 });
    // own data
    let tight = regime <= 1;
    let nkeys = if tight { r.range(3, 40) } else if regime == 3 { r.range(1, 12) } else { r.range(0, 300) };
    let class_bias = r.below(4) as u8;
    let mut ctr = 0u64;
    let mut val = |r: &mut Rng, regime: u64| -> ValSpec {
        ctr += 1;
        let len = match regime {
            0 | 1 => r.range(0, 60),
            3 => *r.pick(&[16_360u64, 16_370, 16_384, 16_400, 30_000, 33_000, 49_152, 50_000, 60_000, 65_000, 200, 40]) + r.below(9),
            4 => {
                if r.chance(0.1) {
                    r.range(1000, 20_000)
                } else {
                    r.range(0, 120)
                }
            }
            _ => r.range(0, 300),
        };
        let class = if r.chance(0.7) { class_bias } else { r.below(4) as u8 };
        ValSpec { class, len: len as u32, seed: (r.next() << 16) | ctr }
    };
    for i in 0..nkeys {
        if !ok {
            break;
        }
        let key = if r.chance(0.05) { "k".repeat(r.range(1, 400) as usize) } else { format!("k{i}") };
        let op = *r.pick(&[WriteOp::Set, WriteOp::Set, WriteOp::Set, WriteOp::SetTtl, WriteOp::Delete, WriteOp::DeleteTtl]);
        let v = val(&mut r, regime);
        ok = go!(BCmd::Write { op, key, val: v });
    }
    // data about synthetic members
    if ok && nm > 0 && !tight {
        for _ in 0..r.range(0, nm as u64 * 2) {
            let member = 1 + r.usize_below(nm);
            // now and then a member made only of tombstones: once collected it has nothing left to
            // send but its max version
            let all_tombstones = r.chance(0.35);
            let nk = if all_tombstones { r.range(1, 3) } else { r.range(1, 12) };
            let kvs: Vec<(String, ValSpec, u8)> = (0..nk).map(|j| (format!("s{j}"), val(&mut r, 4), if all_tombstones { 1 } else { r.below(3) as u8 })).collect();
            let gc = r.below(4);
            if !go!(BCmd::Feed { member, kvs, gc }) {
                ok = false;
                break;
            }
        }
    }
    // let tombstones age out and be collected before probing, in about half of the runs
    if ok && r.chance(0.5) {
        ok = go!(BCmd::Advance { ms: 10_000 + r.below(2) });
        if ok {
            ok = go!(BCmd::Gc);
        }
    }
    // probes
    let probes = r.range(8, 40);
    for _ in 0..probes {
        if !ok {
            break;
        }
        let claims = gen_claims(&mut r, &w);
        let c = match r.below(12) {
            0..=3 => BCmd::SynProbe { claims },
            4..=6 => BCmd::AckProbe { claims },
            7 => BCmd::BoundaryProbe { claims, op_pick: r.next() as u32, d: *r.pick(&[-3i8, -2, -1, -1, 0, 0, 1]) },
            8 => {
                let mtu = match r.below(4) {
                    0 => r.range(100, 700),
                    1 => *r.pick(&[16_380u64, 16_384, 16_388, 32_768, 32_771, 49_152, 65_503, 65_506, 65_507]) + r.below(4),
                    2 => r.range(100, 65_507),
                    _ => r.range(60_000, 65_507),
                };
                BCmd::DeltaProbe { claims, mtu: mtu as usize }
            }
            9 if r.chance(0.6) => BCmd::BoundaryProbe { claims, op_pick: r.next() as u32, d: *r.pick(&[-2i8, -1, -1, 0, 0, 1]) },
            9 => {
                let key = format!("k{}", r.below(nkeys.max(1)));
                let v = val(&mut r, regime);
                BCmd::Write { op: *r.pick(&[WriteOp::Set, WriteOp::Delete, WriteOp::SetTtl]), key, val: v }
            }
            10 => BCmd::Advance { ms: *r.pick(&[1_000u64, 10_000, 10_001, 20_000]) },
            _ => {
                if r.chance(0.5) {
                    BCmd::Gc
                } else {
                    BCmd::Evaluate
                }
            }
        };
        ok = go!(c);
    }
    let _ = ok;
    (cfg, cmds, w, violation)
}

fn outcome(w: &Bw, v: Option<Violation>, prop: &str) -> Outcome {
    let mut o = Outcome { trace: w.trace.0, stats: w.stats.clone(), steps: w.step as u64, sim_ms: w.solo.now_ms, nontrivial: w.nontrivial, ..Default::default() };
    match v {
        Some(v) if v.property == prop => o.violation = Some(v),
        Some(v) => o.foreign_abort = Some(format!("{}: {}", v.code, v.detail)),
        None => {}
    }
    o
}

pub struct Budget;

impl Engine for Budget {
    fn name(&self) -> &'static str {
        "E3-budget"
    }
    fn generate(&self, seed: u64, prop: &str) -> RunRecord {
        let (cfg, cmds, w, v) = run(seed, false);
        RunRecord {
            engine: "E3-budget",
            profile: "budget".into(),
            cfg: serde_json::to_value(&cfg).unwrap(),
            cmds: cmds.iter().map(|c| serde_json::to_value(c).unwrap()).collect(),
            outcome: outcome(&w, v, prop),
        }
    }
    fn replay(&self, cfg: &Value, cmds: &[Value], prop: &str, log: bool) -> (Outcome, Vec<String>) {
        let cfg: BCfg = serde_json::from_value(cfg.clone()).expect("budget config");
        let cmds: Vec<BCmd> = cmds.iter().filter_map(|c| serde_json::from_value(c.clone()).ok()).collect();
        let mut w = Bw::new(&cfg, log);
        let mut v = None;
        for c in &cmds {
            if let Err(e) = w.apply(c) {
                v = Some(e);
                break;
            }
        }
        let o = outcome(&w, v, prop);
        (o, w.log)
    }
    fn real_components(&self) -> Vec<&'static str> {
        vec!["chitchat/src/lib.rs process_message (SYN->SYN-ACK, SYN-ACK->ACK budgets)", "chitchat/src/state.rs compute_partial_delta_respecting_mtu", "chitchat/src/delta.rs DeltaSerializer", "chitchat/src/serialize.rs CompressedStreamWriter"]
    }
    fn stub_components(&self) -> Vec<&'static str> {
        vec!["peers exist only as datagrams built by the independent encoder"]
    }
}
