//! C17 direct: the real selection function on every subset structure of up to 6 addresses
//! (each address is one of: unrelated, peer, live peer, dead peer; seed or not) under scripted
//! generators with extreme, mid-range and seeded draws.

use std::net::SocketAddr;

use serde::{Deserialize, Serialize};
use serde_json::Value;

use crate::common::{Outcome, Stats, Violation};
use crate::engine::{Engine, RunRecord};
use crate::rng::{Rng, Trace};
use crate::select::{check_selection, run_selection};

#[derive(Clone, Debug, Serialize, Deserialize)]
pub struct SCfg {}

/// class per address: 0 unrelated, 1 peer (neither live nor dead), 2 live peer, 3 dead peer; +4 = also a seed
#[derive(Clone, Debug, Serialize, Deserialize)]
pub enum SCmd {
    Select { classes: Vec<u8>, rng_seed: u64, mode: u8 },
}

fn addr(i: usize) -> SocketAddr {
    SocketAddr::from(([10, 8, 0, 1 + i as u8], 6000 + i as u16))
}

fn run_one(classes: &[u8], rng_seed: u64, mode: u8) -> Result<u64, (String, String)> {
    let mut peers = Vec::new();
    let mut live = Vec::new();
    let mut dead = Vec::new();
    let mut seeds = Vec::new();
    for (i, c) in classes.iter().enumerate() {
        let a = addr(i);
        match c % 4 {
            1 => peers.push(a),
            2 => {
                peers.push(a);
                live.push(a);
            }
            3 => {
                peers.push(a);
                dead.push(a);
            }
            _ => {}
        }
        if c / 4 == 1 {
            seeds.push(a);
        }
    }
    let (nodes, d, s) = run_selection(rng_seed, mode, &peers, &live, &dead, &seeds).map_err(|p| ("C17.panic".to_string(), format!("selection panicked on pools peers {} live {} dead {} seeds {}: {p}", peers.len(), live.len(), dead.len(), seeds.len())))?;
    check_selection(&peers, &live, &dead, &seeds, &nodes, d, s).map_err(|(c, m)| (c, format!("pools peers {} live {} dead {} seeds {} mode {mode}: {m}", peers.len(), live.len(), dead.len(), seeds.len())))?;
    Ok((nodes.len() as u64) * 4 + (d.is_some() as u64) * 2 + s.is_some() as u64)
}

fn execute(cmds: &[SCmd], log: bool, prop: &str) -> (Outcome, Vec<String>) {
    let mut stats = Stats::default();
    let mut trace = Trace::default();
    let mut lg = Vec::new();
    let mut v = None;
    let mut abs = Vec::new();
    for (i, c) in cmds.iter().enumerate() {
        let SCmd::Select { classes, rng_seed, mode } = c;
        if log {
            lg.push(format!("[{}] {:?}", i + 1, c));
        }
        let mut sorted = classes.clone();
        sorted.sort();
        let mut h = *mode as u64;
        for c in &sorted {
            h = h * 9 + 1 + *c as u64;
        }
        abs.push(h);
        match run_one(classes, *rng_seed, *mode) {
            Ok(shape) => {
                trace.u(shape);
                stats.inc("selections_checked");
            }
            Err((code, detail)) => {
                v = Some(Violation { property: "C17".into(), code, step: i + 1, detail, finding: String::new() });
                break;
            }
        }
    }
    let mut o = Outcome { trace: trace.0, stats, steps: cmds.len() as u64, sim_ms: 0, nontrivial: !cmds.is_empty(), abs_states: abs, ..Default::default() };
    match v {
        Some(v) if v.property == prop => o.violation = Some(v),
        Some(v) => o.foreign_abort = Some(format!("{}: {}", v.code, v.detail)),
        None => {}
    }
    (o, lg)
}

/// Run `seed` enumerates a slice of the structure space: multisets are drawn from the seed, so a
/// batch of consecutive seeds covers all 1,716 multisets of 8 classes over 6 addresses many times.
fn gen(seed: u64) -> Vec<SCmd> {
    let mut r = Rng::new(seed);
    let mut cmds = Vec::new();
    for _ in 0..40 {
        let n = r.range(0, 6) as usize;
        let classes: Vec<u8> = (0..n).map(|_| r.below(8) as u8).collect();
        for mode in 0..5u8 {
            cmds.push(SCmd::Select { classes: classes.clone(), rng_seed: r.next(), mode });
        }
    }
    cmds
}

pub struct Selection;

impl Engine for Selection {
    fn name(&self) -> &'static str {
        "E3-selection"
    }
    fn generate(&self, seed: u64, prop: &str) -> RunRecord {
        let cmds = gen(seed);
        crate::abort::tee_cfg("E3-selection", "pools", &serde_json::to_value(&SCfg {}).unwrap());
        crate::abort::tee_cmds(&cmds);
        let (outcome, _) = execute(&cmds, false, prop);
        RunRecord { engine: "E3-selection", profile: "pools".into(), cfg: serde_json::to_value(&SCfg {}).unwrap(), cmds: cmds.iter().map(|c| serde_json::to_value(c).unwrap()).collect(), outcome }
    }
    fn replay(&self, _cfg: &Value, cmds: &[Value], prop: &str, log: bool) -> (Outcome, Vec<String>) {
        let cmds: Vec<SCmd> = cmds.iter().filter_map(|c| serde_json::from_value(c.clone()).ok()).collect();
        execute(&cmds, log, prop)
    }
    fn real_components(&self) -> Vec<&'static str> {
        vec!["chitchat/src/server.rs select_nodes_for_gossip, select_dead_node_to_gossip_with, select_seed_node_to_gossip_with (through the verif facade)"]
    }
    fn stub_components(&self) -> Vec<&'static str> {
        vec!["pools are given directly instead of being derived from a cluster state (E1 and E2 derive them)"]
    }
}
