//! Small-scope (copy, copy) and (copy, delta) pairs for C14, C20 and C04: sender and receiver
//! copies with arbitrary frontiers (including ones no honest history produces), the sender's real
//! reply to the receiver's real digest, every truncation point of that reply, and arbitrary deltas.

use std::sync::atomic::Ordering;

use serde::{Deserialize, Serialize};
use serde_json::Value;

use super::solo::{KvSpec, Reply, Solo, SoloCfg};
use crate::codec::{self, BlockPlan, Id, Kv, Msg, NodeDelta, Op};
use crate::common::{Outcome, Stats, Violation};
use crate::e1::deliver::order_pattern;
use crate::engine::{Engine, RunRecord};
use crate::rng::{Rng, Trace};

#[derive(Clone, Debug, Serialize, Deserialize)]
pub struct CopySpec {
    pub absent: bool,
    pub gc: u64,
    pub mv: u64,
    pub kvs: Vec<KvSpec>,
}

#[derive(Clone, Debug, Serialize, Deserialize)]
pub struct DeltaSpec {
    pub gc: u64,
    pub from: u64,
    pub kvs: Vec<KvSpec>,
    pub setmax: Option<u64>,
}

#[derive(Clone, Debug, Serialize, Deserialize)]
pub enum PCmd {
    /// receiver's real digest -> sender's real reply -> receiver; then every truncation of the reply
    Pair { s: CopySpec, r: CopySpec },
    /// an arbitrary delta applied to the receiver's copy
    Arbitrary { r: CopySpec, d: DeltaSpec },
}

#[derive(Clone, Debug, Serialize, Deserialize)]
pub struct PCfg {}

fn x_id() -> Id {
    Id { node_id: "x".into(), generation: 0, addr: "10.6.0.9:7009".parse().unwrap() }
}

fn node(name: &str, port: u16) -> Solo {
    let id = Id { node_id: name.into(), generation: 0, addr: format!("10.6.0.1:{port}").parse().unwrap() };
    Solo::new(SoloCfg { id, cluster: "c".into(), grace_ms: 10_000, dead_grace_ms: 100_000_000, phi: 8.0, window: 10, max_interval_ms: 10_000, initial_interval_ms: 5_000, predicate: false }, None)
}

fn build(name: &str, port: u16, spec: &CopySpec) -> Result<Solo, String> {
    let mut n = node(name, port);
    if !spec.absent {
        n.install_copy(&x_id(), 5, spec.gc, spec.mv, &spec.kvs)?;
    }
    Ok(n)
}

struct Pw {
    step: usize,
    stats: Stats,
    trace: Trace,
    transitions: Vec<u64>,
    log: Vec<String>,
    decided: u64,
}

fn frontier(n: &Solo) -> Option<(u64, u64)> {
    n.view().get(&x_id()).map(|c| (c.gc, c.mv))
}

impl Pw {
    fn v(&self, prop: &str, code: &str, detail: String) -> Violation {
        Violation { property: prop.into(), code: code.into(), step: self.step, detail, finding: String::new() }
    }

    /// Delivers `msg` to r and runs the C04 / C20 oracles. Returns (before, after, reply).
    fn deliver(&mut self, r: &mut Solo, msg: &Msg, what: &str) -> Result<(Option<(u64, u64)>, Option<(u64, u64)>, Option<Reply>), Violation> {
        let before_view = r.view();
        let before = frontier(r);
        let cb0 = r.cb.load(Ordering::SeqCst);
        let reply = match r.send(msg, BlockPlan::Auto { size: 16_384 }) {
            Err(p) => return Err(self.v("C04", "C04.panic", format!("{what}: process_message panicked: {p}"))),
            Ok(x) => x,
        };
        let after_view = r.view();
        let after = frontier(r);
        let cbs = r.cb.load(Ordering::SeqCst) - cb0;
        let mut resets = 0;
        for (id, a) in &after_view {
            let b = before_view.get(id);
            let bgc = b.map(|c| c.gc).unwrap_or(0);
            if a.gc > bgc {
                resets += 1;
            }
            if let Some(b) = b {
                if (a.gc, a.mv) < (b.gc, b.mv) {
                    return Err(self.v("C04", "C04.frontier_decreased", format!("{what}: copy of {} ({}, {}) -> ({}, {})", id.short(), b.gc, b.mv, a.gc, a.mv)));
                }
                if a.gc == b.gc {
                    for (k, be) in &b.entries {
                        match a.entries.get(k) {
                            Some(ae) if ae.version >= be.version => {}
                            other => {
                                return Err(self.v("C04", "C04.key_version_decreased", format!("{what}: key {k:?} @{} -> {:?} without a reset", be.version, other.map(|e| e.version))));
                            }
                        }
                    }
                }
            }
        }
        if let Some(ops) = msg.ops() {
            // a reset as the statement defines it (delta from version 0 whose watermark is above the
            // copy's watermark and max version), not "the watermark moved"
            let resets = crate::e1::world::stated_resets(ops, &before_view, &after_view).map(|v| v.len()).unwrap_or(resets);
            let expected = if resets > 0 { 1 } else { 0 };
            if cbs != expected {
                return Err(self.v("C20", "C20.count", format!("{what}: {cbs} callback(s) for a message that reset {resets} copies")));
            }
            if resets > 0 {
                self.stats.inc("probe_reset_applied");
            }
        }
        self.decided += 1;
        Ok((before, after, reply))
    }

    fn check_c14(&mut self, b: Option<(u64, u64)>, a: Option<(u64, u64)>, nd: &NodeDelta, what: &str) -> Result<(), Violation> {
        let Some(a) = a else { return Ok(()) };
        let b = b.unwrap_or((0, 0));
        let nonempty = !nd.kvs.is_empty() || nd.has_setmax;
        let reset_expected = b.0 < nd.gc && b.1 < nd.gc;
        let outcome = if a.0 > b.0 { 2 } else if a.1 > b.1 { 1 } else { 0 };
        self.transitions.push(order_pattern(&[nd.gc, nd.max, b.0, b.1, nd.from]) * 4 + outcome);
        if reset_expected {
            if nd.from != 0 {
                return Err(self.v("C14", "C14.from_nonzero_on_reset", format!("{what}: receiver ({}, {}), sender watermark {}: delta starts at {}", b.0, b.1, nd.gc, nd.from)));
            }
            if a.0 != nd.gc {
                return Err(self.v("C14", "C14.no_wipe", format!("{what}: receiver ({}, {}) not wiped by a reset delta (gc {}): after ({}, {})", b.0, b.1, nd.gc, a.0, a.1)));
            }
        } else {
            if nd.from != b.1 {
                return Err(self.v("C14", "C14.from", format!("{what}: receiver ({}, {}), sender watermark {}: delta starts at {} instead of {}", b.0, b.1, nd.gc, nd.from, b.1)));
            }
            if a.0 != b.0 {
                return Err(self.v("C14", "C14.needless_wipe", format!("{what}: receiver ({}, {}) wiped by delta (gc {}, from {})", b.0, b.1, nd.gc, nd.from)));
            }
        }
        if nonempty && a <= b {
            return Err(self.v("C14", "C14.refused", format!("{what}: unchanged receiver ({}, {}) refused delta (gc {}, from {}, max {}, {} kvs)", b.0, b.1, nd.gc, nd.from, nd.max, nd.kvs.len())));
        }
        Ok(())
    }

    fn apply(&mut self, cmd: &PCmd, keep_log: bool) -> Result<(), Violation> {
        self.step += 1;
        if keep_log {
            self.log.push(format!("[{}] {:?}", self.step, cmd));
        }
        let setup = |e: String| Violation { property: "C04".into(), code: "C04.panic".into(), step: 0, detail: format!("building a copy through crafted deltas panicked: {e}"), finding: String::new() };
        match cmd {
            PCmd::Pair { s, r } => {
                let mut sn = build("s", 7001, s).map_err(setup)?;
                let mut rn = build("r", 7002, r).map_err(setup)?;
                let (sf, rf) = (frontier(&sn), frontier(&rn));
                self.trace.u(sf.map(|f| f.0 * 100 + f.1).unwrap_or(9999));
                self.trace.u(rf.map(|f| f.0 * 100 + f.1).unwrap_or(9999));
                if keep_log {
                    self.log.push(format!("    sender copy {sf:?} receiver copy {rf:?}"));
                }
                // receiver's real SYN
                let syn = {
                    let _g = rn.rt.enter();
                    let chit = &rn.chit;
                    crate::common::guarded(|| chit.verif_create_syn_message()).map_err(|p| self.v("C04", "C04.panic", format!("create_syn_message panicked: {p}")))?
                };
                let syn_bytes = crate::common::guarded(|| chitchat::Serializable::serialize_to_vec(&syn)).map_err(|p| self.v("C04", "C04.panic", format!("serializing a SYN panicked: {p}")))?;
                let reply = sn.send_bytes(&syn_bytes).map_err(|p| self.v("C04", "C04.panic", format!("sender panicked on the receiver's SYN: {p}")))?;
                let Some(Reply::Bytes(_, synack)) = reply else { return Ok(()) };
                let deltas = synack.ops().and_then(|o| codec::group_ops(o)).unwrap_or_default();
                let nd = deltas.iter().find(|d| d.id == x_id()).cloned();
                // sender ahead => the delta is there (everything is tiny: space is never the reason)
                if let Some((sgc, smv)) = sf {
                    let rmv = rf.map(|f| f.1).unwrap_or(0);
                    let _ = sgc;
                    if smv > rmv && nd.is_none() {
                        return Err(self.v("C14", "C14.missing_member", format!("sender copy {sf:?} is ahead of receiver {rf:?} but the reply carries nothing")));
                    }
                    if smv <= rmv && nd.is_some() {
                        self.stats.inc("probe_delta_although_not_ahead");
                    }
                }
                let (b, a, ack) = self.deliver(&mut rn, &synack, "SYN-ACK to unchanged receiver")?;
                if let Some(nd) = &nd {
                    self.check_c14(b, a, nd, "sender's reply to the receiver's own digest")?;
                    self.stats.inc("pairs_with_delta");
                }
                // the ACK goes back to the sender, which is unchanged since its digest
                if let Some(Reply::Bytes(_, ackmsg)) = ack {
                    let ds = ackmsg.ops().and_then(|o| codec::group_ops(o)).unwrap_or_default();
                    let ndx = ds.iter().find(|d| d.id == x_id()).cloned();
                    let (b2, a2, _) = self.deliver(&mut sn, &ackmsg, "ACK to unchanged sender")?;
                    if let Some(ndx) = &ndx {
                        self.check_c14(b2, a2, ndx, "receiver's ACK to the sender's own digest")?;
                    }
                }
                // every truncation point of the sender's delta, against a fresh identical receiver
                if let Some(nd) = &nd {
                    for cut in 0..nd.kvs.len() {
                        let mut ops = vec![Op::Node { id: nd.id.clone(), gc: nd.gc, from: nd.from }];
                        for kv in nd.kvs.iter().take(cut) {
                            ops.push(Op::Kv(kv.clone()));
                        }
                        let t = NodeDelta { id: nd.id.clone(), gc: nd.gc, from: nd.from, kvs: nd.kvs[..cut].to_vec(), max: nd.kvs[..cut].last().map(|k| k.version).unwrap_or(0), has_setmax: false };
                        let mut rn2 = build("r", 7002, r).map_err(setup)?;
                        let digest = synack.digest().cloned().unwrap_or_default();
                        let m = Msg::SynAck { digest, ops };
                        let (b, a, _) = self.deliver(&mut rn2, &m, &format!("reply truncated after {cut} key-values"))?;
                        self.check_c14(b, a, &t, &format!("reply truncated after {cut} key-values"))?;
                        self.stats.inc("truncation_points_checked");
                    }
                }
                Ok(())
            }
            PCmd::Arbitrary { r, d } => {
                let mut rn = build("r", 7002, r).map_err(setup)?;
                let rf = frontier(&rn);
                let mut ops = vec![Op::Node { id: x_id(), gc: d.gc, from: d.from }];
                let mut last = 0;
                let mut sorted = d.kvs.clone();
                sorted.sort_by_key(|k| k.2);
                for (k, v, ver, st) in &sorted {
                    if *ver > last {
                        ops.push(Op::Kv(Kv { key: k.clone(), value: v.clone(), version: *ver, status: *st % 3 }));
                        last = *ver;
                    }
                }
                if let Some(m) = d.setmax {
                    ops.push(Op::SetMax(m.max(last)));
                }
                self.trace.u(rf.map(|f| f.0 * 100 + f.1).unwrap_or(9999));
                self.trace.u(d.gc * 100 + d.from);
                let msg = if d.gc % 2 == 0 { Msg::Ack { ops } } else { Msg::SynAck { digest: vec![], ops } };
                let (b, a, _) = self.deliver(&mut rn, &msg, "arbitrary delta")?;
                let b = b.unwrap_or((0, 0));
                if let Some(a) = a {
                    let outcome = if a.0 > b.0 { 2 } else if a.1 > b.1 { 1 } else { 0 };
                    self.transitions.push(order_pattern(&[d.gc, d.setmax.unwrap_or(last).max(last), b.0, b.1, d.from]) * 4 + outcome);
                }
                self.stats.inc("arbitrary_deltas");
                Ok(())
            }
        }
    }
}

fn copy_spec(r: &mut Rng, scope: u64) -> CopySpec {
    let mv = r.below(scope + 1);
    let gc = r.below(scope + 1);
    let keys = ["a", "b", "c"];
    let mut versions: Vec<u64> = (1..=mv).collect();
    r.shuffle(&mut versions);
    let mut kvs = Vec::new();
    for k in keys {
        if r.chance(0.6) {
            if let Some(v) = versions.pop() {
                kvs.push((k.to_string(), format!("{k}{v}"), v, r.below(3) as u8));
            }
        }
    }
    CopySpec { absent: r.chance(0.08), gc, mv, kvs }
}

fn gen(seed: u64) -> (PCfg, Vec<PCmd>) {
    let mut r = Rng::new(seed);
    let scope = if r.chance(0.8) { 7 } else { 40 };
    let mut cmds = Vec::new();
    for _ in 0..r.range(1, 4) {
        if r.chance(0.6) {
            cmds.push(PCmd::Pair { s: copy_spec(&mut r, scope), r: copy_spec(&mut r, scope) });
        } else {
            let rs = copy_spec(&mut r, scope);
            let ds = copy_spec(&mut r, scope + 2);
            let any = r.below(scope + 2);
            let from = *r.pick(&[0, 0, rs.mv, rs.mv, rs.mv + 1, any]);
            let setmax = if r.chance(0.4) { Some(r.below(scope + 3)) } else { None };
            cmds.push(PCmd::Arbitrary { r: rs, d: DeltaSpec { gc: ds.gc, from, kvs: ds.kvs, setmax } });
        }
    }
    (PCfg {}, cmds)
}

fn execute(cmds: &[PCmd], log: bool, prop: &str) -> (Outcome, Vec<String>) {
    let mut w = Pw { step: 0, stats: Stats::default(), trace: Trace::default(), transitions: Vec::new(), log: Vec::new(), decided: 0 };
    let mut v = None;
    for c in cmds {
        if let Err(mut e) = w.apply(c, log) {
            e.step = w.step;
            v = Some(e);
            break;
        }
    }
    let mut o = Outcome { trace: w.trace.0, stats: w.stats.clone(), steps: w.step as u64, sim_ms: 0, nontrivial: w.decided > 0, abs_transitions: w.transitions.clone(), ..Default::default() };
    match v {
        Some(v) if v.property == prop => o.violation = Some(v),
        Some(v) => o.foreign_abort = Some(format!("{}: {}", v.code, v.detail)),
        None => {}
    }
    (o, w.log)
}

pub struct Pairs;

impl Engine for Pairs {
    fn name(&self) -> &'static str {
        "E3-pairs"
    }
    fn generate(&self, seed: u64, prop: &str) -> RunRecord {
        let (cfg, cmds) = gen(seed);
        crate::abort::tee_cfg("E3-pairs", "pairs", &serde_json::to_value(&cfg).unwrap());
        crate::abort::tee_cmds(&cmds);
        let (outcome, _) = execute(&cmds, false, prop);
        RunRecord { engine: "E3-pairs", profile: "pairs".into(), cfg: serde_json::to_value(&cfg).unwrap(), cmds: cmds.iter().map(|c| serde_json::to_value(c).unwrap()).collect(), outcome }
    }
    fn replay(&self, _cfg: &Value, cmds: &[Value], prop: &str, log: bool) -> (Outcome, Vec<String>) {
        let cmds: Vec<PCmd> = cmds.iter().filter_map(|c| serde_json::from_value(c.clone()).ok()).collect();
        execute(&cmds, log, prop)
    }
    fn real_components(&self) -> Vec<&'static str> {
        vec!["chitchat/src/state.rs check_delta_status / apply_delta / compute_partial_delta_respecting_mtu (sender and receiver side decisions)", "chitchat/src/lib.rs process_message, process_delta (catch-up callback)"]
    }
    fn stub_components(&self) -> Vec<&'static str> {
        vec!["copies are installed through crafted deltas instead of histories, so frontiers no honest history produces are included"]
    }
}
