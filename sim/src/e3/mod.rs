pub mod budget;
pub mod solo;
