pub mod budget;
pub mod catchup;
pub mod detector;
pub mod kv;
pub mod pairs;
pub mod selection;
pub mod solo;
pub mod wire;
