mod abort;
mod c07;
mod codec;
mod common;
mod driver;
mod e1;
mod e2;
mod e3;
mod engine;
mod hostile;
mod props;
mod rng;
mod select;
mod shim;

use std::sync::Arc;

use driver::{CheckPlan, ReplayFile};
use engine::Engine;

fn engines() -> Vec<Arc<dyn Engine>> {
    vec![
        Arc::new(e1::engine::E1),
        Arc::new(e3::budget::Budget),
        Arc::new(e2::E2),
        Arc::new(e3::kv::Kv),
        Arc::new(e3::detector::Detector),
        Arc::new(e3::catchup::Catchup),
        Arc::new(e3::pairs::Pairs),
        Arc::new(e3::wire::Wire),
        Arc::new(e3::selection::Selection),
        Arc::new(e3::memory::Memory),
    ]
}

fn env_u64(k: &str) -> Option<u64> {
    std::env::var(k).ok().and_then(|s| s.parse().ok())
}

/// Run counts per (property, engine, tier). Fixed so that a seed names the same runs anywhere;
/// the wall-clock cap is only a safety stop.
fn plan_for(prop: &str, tier: &str) -> Vec<(Arc<dyn Engine>, u64)> {
    let thorough = tier == "thorough";
    let scale = env_u64("VERIF_RUNS_PCT").unwrap_or(100);
    let mut v: Vec<(Arc<dyn Engine>, u64)> = Vec::new();
    let mut add = |e: Arc<dyn Engine>, quick: u64, thorough_n: u64| {
        let n = if thorough { thorough_n } else { quick };
        if n > 0 {
            v.push((e, (n * scale / 100).max(1)));
        }
    };
    // directed single-node engines first (cheap, sharp), then the cluster simulator
    match prop {
        "C01" => add(Arc::new(e2::E2), 3_000, 100_000),
        "C02" | "C03" => add(Arc::new(e2::E2), 3_000, 100_000),
        "C04" => add(Arc::new(e3::pairs::Pairs), 40_000, 2_000_000),
        "C06" => {
            add(Arc::new(e3::kv::Kv), 60_000, 3_000_000);
            // the real server loop has to run the collection (owner side)
            add(Arc::new(e2::E2), 2_000, 80_000);
        }
        "C07" => add(Arc::new(e3::budget::Budget), 20_000, 600_000),
        "C08" => {
            add(Arc::new(e3::wire::Wire), 20_000, 800_000);
            // what real servers hand to their sockets (transport/udp.rs buffer handling included)
            add(Arc::new(e2::E2), 2_000, 80_000);
        }
        "C10" | "C11" => add(Arc::new(e3::detector::Detector), 20_000, 1_000_000),
        "C12" => add(Arc::new(e3::memory::Memory), 6_000, 200_000),
        "C14" | "C20" => add(Arc::new(e3::pairs::Pairs), 40_000, 2_000_000),
        "C17" => {
            add(Arc::new(e3::selection::Selection), 4_000, 200_000);
            add(Arc::new(e2::E2), 4_000, 150_000);
        }
        "C18" => add(Arc::new(e3::catchup::Catchup), 60_000, 3_000_000),
        "C19" => add(Arc::new(e2::E2), 8_000, 300_000),
        _ => {}
    }
    if prop != "C19" {
        add(Arc::new(e1::engine::E1), 12_000, 400_000);
    }
    if let Ok(only) = std::env::var("VERIF_ENGINE") {
        v.retain(|(e, _)| e.name() == only);
    }
    v
}

fn usage() -> i32 {
    eprintln!("usage: sim check <C01..C20> <quick|thorough> | replay <file> [-v] | selftest [n] | explore <prop> <start> <count> | log <prop> <seed> [lines]");
    2
}

fn main() {
    common::install_panic_hook();
    if let Err(e) = shim::self_check() {
        eprintln!("harness error: {e}");
        std::process::exit(2);
    }
    let args: Vec<String> = std::env::args().collect();
    let code = match args.get(1).map(|s| s.as_str()) {
        Some("check") => {
            let (Some(prop), Some(tier)) = (args.get(2), args.get(3)) else { std::process::exit(usage()) };
            let tier = std::env::var("VERIF_TIER").ok().filter(|t| t == "quick" || t == "thorough").unwrap_or(tier.clone());
            if !props::ALL.contains(&prop.as_str()) || (tier != "quick" && tier != "thorough") {
                std::process::exit(usage());
            }
            let seed = env_u64("VERIF_SEED").unwrap_or(1);
            println!("VERIF_SEED={seed} property={prop} tier={tier}");
            let budget_s = env_u64("VERIF_BUDGET_S").map(|x| x as f64).unwrap_or(if tier == "quick" { 150.0 } else { 3000.0 });
            let workers = env_u64("VERIF_WORKERS").unwrap_or(16) as usize;
            let plan = CheckPlan { prop: prop.clone(), tier, seed, engines: plan_for(prop, args[3].as_str()), budget_s, workers };
            abort::install(&std::env::var("VERIF_ROOT").unwrap_or("/verif".into()));
            driver::run_check(&plan).exit
        }
        Some("replay") => {
            let Some(path) = args.get(2) else { std::process::exit(usage()) };
            driver::cmd_replay(&engines(), path, args.iter().any(|a| a == "-v"))
        }
        Some("isolate") | Some("abortreplay") => {
            // isolate <prop> <tier> <engine index in the plan> <run_index> <tee>
            // abortreplay <prop> <tier> <engine index in the plan> <run_index> <tee> <out>
            let prop = args.get(2).cloned().unwrap_or_default();
            let tier = args.get(3).cloned().unwrap_or("quick".into());
            let eidx: usize = args.get(4).and_then(|s| s.parse().ok()).unwrap_or(0);
            let idx: u64 = args.get(5).and_then(|s| s.parse().ok()).unwrap_or(0);
            let tee = args.get(6).cloned().unwrap_or_default();
            if !props::ALL.contains(&prop.as_str()) {
                std::process::exit(usage());
            }
            let plan = plan_for(&prop, &tier);
            let Some((eng, _)) = plan.get(eidx) else { std::process::exit(usage()) };
            let seed = env_u64("VERIF_SEED").unwrap_or(1);
            if args[1] == "isolate" {
                driver::cmd_isolate(eng, &prop, seed, idx, &tee)
            } else {
                driver::cmd_abortreplay(eng, &prop, seed, idx, &tee, &args.get(7).cloned().unwrap_or("/tmp/abort.replay.json".into()), args.get(8).map(|s| s.as_str()).unwrap_or("abort"))
            }
        }
        Some("mkreplay") => {
            // mkreplay <prop> <engine> <run_index> <out> [known]
            let prop = args.get(2).cloned().unwrap_or_default();
            let ename = args.get(3).cloned().unwrap_or_default();
            let idx: u64 = args.get(4).and_then(|s| s.parse().ok()).unwrap_or(0);
            let out = args.get(5).cloned().unwrap_or("/tmp/out.replay.json".into());
            let known = args.get(6).map(|s| s == "known").unwrap_or(false);
            let Some(eng) = engines().into_iter().find(|e| e.name() == ename) else { std::process::exit(usage()) };
            driver::cmd_mkreplay(&eng, &prop, env_u64("VERIF_SEED").unwrap_or(1), idx, &out, known)
        }
        Some("selftest") => {
            let n = args.get(2).and_then(|s| s.parse().ok()).unwrap_or(200u64);
            selftest(n, args.get(3).map(|s| s.as_str()))
        }
        Some("explore") => {
            let prop = args.get(2).cloned().unwrap_or("C02".into());
            let start: u64 = args.get(3).and_then(|s| s.parse().ok()).unwrap_or(1);
            let count: u64 = args.get(4).and_then(|s| s.parse().ok()).unwrap_or(1000);
            explore(&prop, start, count)
        }
        Some("log") => {
            let prop = args.get(2).cloned().unwrap_or("C02".into());
            let seed: u64 = args.get(3).and_then(|s| s.parse().ok()).unwrap_or(1);
            let lines: usize = args.get(4).and_then(|s| s.parse().ok()).unwrap_or(60);
            let eng = e1::engine::E1;
            let rec = engine::on_fresh_thread(seed, {
                let prop = prop.clone();
                move || eng.generate(seed, &prop)
            });
            let rf = ReplayFile {
                format: 1,
                engine: rec.engine.into(),
                property: prop.clone(),
                profile: rec.profile.clone(),
                seed,
                run_index: 0,
                thread_seed: seed,
                expect: "violation".into(),
                config: rec.cfg.clone(),
                commands: rec.cmds.clone(),
                violation: rec.outcome.violation.clone(),
                trace: format!("{:016x}", rec.outcome.trace),
                original_commands: rec.cmds.len(),
                note: String::new(),
            };
            let (o, log) = driver::run_replay(&e1::engine::E1, &rf, true);
            for l in log.iter().skip(log.len().saturating_sub(lines)) {
                println!("{l}");
            }
            println!("profile {} violation {:?} foreign {:?} known {:?}", rec.profile, o.violation, o.foreign_abort, o.known_hits);
            println!("{}", rec.cfg);
            0
        }
        _ => usage(),
    };
    std::process::exit(code);
}

/// Dev tool: run seeds start..start+count for a property on all cores, print violation classes.
fn explore(prop: &str, start: u64, count: u64) -> i32 {
    use std::collections::BTreeMap;
    use std::sync::atomic::{AtomicU64, Ordering};
    use std::sync::Mutex;
    let t0 = std::time::Instant::now();
    let next = Arc::new(AtomicU64::new(start));
    let classes: Arc<Mutex<BTreeMap<String, (u64, u64, String)>>> = Default::default();
    let stats: Arc<Mutex<common::Stats>> = Default::default();
    let mut hs = Vec::new();
    for _ in 0..16 {
        let (next, classes, stats, prop) = (next.clone(), classes.clone(), stats.clone(), prop.to_string());
        hs.push(std::thread::spawn(move || loop {
            let seed = next.fetch_add(1, Ordering::SeqCst);
            if seed >= start + count {
                break;
            }
            let p2 = prop.clone();
            let rec = engine::on_fresh_thread(seed, move || e1::engine::E1.generate(seed, &p2));
            stats.lock().unwrap().merge(&rec.outcome.stats);
            let mut c = classes.lock().unwrap();
            if let Some(v) = &rec.outcome.violation {
                let e = c.entry(v.code.clone()).or_insert((seed, 0, v.detail.clone()));
                e.1 += 1;
                e.0 = e.0.min(seed);
            }
            if let Some(f) = &rec.outcome.foreign_abort {
                let key = format!("foreign:{}", f.split(':').next().unwrap_or(""));
                let e = c.entry(key).or_insert((seed, 0, f.clone()));
                e.1 += 1;
                e.0 = e.0.min(seed);
            }
        }));
    }
    for h in hs {
        let _ = h.join();
    }
    println!("{count} runs in {:?}", t0.elapsed());
    for (k, v) in classes.lock().unwrap().iter() {
        println!("VIOL {k}: first seed {} count {} :: {}", v.0, v.1, v.2);
    }
    if std::env::var("STATS").is_ok() {
        for (k, v) in &stats.lock().unwrap().0 {
            println!("  {k} = {v}");
        }
    }
    0
}

/// Determinism self-test: the same run seeds give the same trace hashes in two child processes
/// (and across worker counts, since a run never depends on which worker took it).
fn selftest(n: u64, child: Option<&str>) -> i32 {
    if child == Some("child") {
        let mut acc = Vec::new();
        // generation and replay of the same run must agree (same trace hash)
        for prop in ["C17", "C01", "C12"] {
            for i in 0..(n / 4).max(5) {
                let seed = rng::mix(prop_seed(prop), 1_000_000 + i);
                let p = prop.to_string();
                let rec = engine::on_fresh_thread(seed, move || e1::engine::E1.generate(seed, &p));
                let rf = ReplayFile {
                    format: 1,
                    engine: "E1".into(),
                    property: prop.to_string(),
                    profile: rec.profile.clone(),
                    seed,
                    run_index: i,
                    thread_seed: seed,
                    expect: "pass".into(),
                    config: rec.cfg.clone(),
                    commands: rec.cmds.clone(),
                    violation: None,
                    trace: String::new(),
                    original_commands: 0,
                    note: String::new(),
                };
                let (o, _) = driver::run_replay(&e1::engine::E1, &rf, false);
                if o.trace != rec.outcome.trace {
                    println!("GEN/REPLAY MISMATCH {prop} {i}: {:016x} vs {:016x}", rec.outcome.trace, o.trace);
                    return 3;
                }
                acc.push(format!("replay {prop} {i} {:016x}", o.trace));
            }
        }
        for prop in ["C02", "C09", "C12", "C16", "C17"] {
            for i in 0..n {
                let seed = rng::mix(prop_seed(prop), i);
                let p = prop.to_string();
                let rec = engine::on_fresh_thread(seed, move || e1::engine::E1.generate(seed, &p));
                acc.push(format!("{prop} {i} {:016x} {}", rec.outcome.trace, rec.cmds.len()));
            }
        }
        println!("{}", acc.join("\n"));
        return 0;
    }
    let exe = std::env::current_exe().unwrap();
    let run = || std::process::Command::new(&exe).arg("selftest").arg(n.to_string()).arg("child").output();
    let (a, b) = (run(), run());
    match (a, b) {
        (Ok(a), Ok(b)) if a.status.success() && b.status.success() => {
            if a.stdout == b.stdout && !a.stdout.is_empty() {
                println!("selftest: {} runs x 2 processes: identical trace hashes", 5 * n);
                0
            } else {
                let (sa, sb) = (String::from_utf8_lossy(&a.stdout).to_string(), String::from_utf8_lossy(&b.stdout).to_string());
                for (la, lb) in sa.lines().zip(sb.lines()) {
                    if la != lb {
                        eprintln!("harness error: nondeterminism: {la} vs {lb}");
                        break;
                    }
                }
                2
            }
        }
        _ => {
            eprintln!("harness error: selftest child failed");
            2
        }
    }
}

fn prop_seed(p: &str) -> u64 {
    driver::prop_hash(p)
}
