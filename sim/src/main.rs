mod codec;
mod common;
mod e1;
mod hostile;
mod rng;
mod select;
mod shim;

fn main() {
    common::install_panic_hook();
    shim::self_check().unwrap();
    let args: Vec<String> = std::env::args().collect();
    let start: u64 = args.get(1).and_then(|s| s.parse().ok()).unwrap_or(1);
    let count: u64 = args.get(2).and_then(|s| s.parse().ok()).unwrap_or(10);
    let enabled: Vec<String> = (1..=20).map(|i| format!("C{i:02}")).collect();
    if args.get(3).map(|s| s == "log").unwrap_or(false) {
        shim::seed_thread(start);
        let g = e1::gen::run_generated(start, e1::gen::Profile::General, &enabled, true);
        let n = g.world.log.len();
        for l in g.world.log.iter().skip(n.saturating_sub(count as usize)) {
            println!("{l}");
        }
        println!("{:?}", g.violation);
        println!("{:?}", g.cfg);
        return;
    }
    let t0 = std::time::Instant::now();
    let mut classes: std::collections::BTreeMap<String, (u64, u64, String)> = Default::default();
    let mut stats = common::Stats::default();
    for seed in start..start + count {
        let en = enabled.clone();
        let g = std::thread::spawn(move || {
            shim::seed_thread(seed);
            let g = e1::gen::run_generated(seed, e1::gen::Profile::General, &en, false);
            (g.violation, g.world.stats.clone(), g.cmds.len(), g.world.known_hits.len())
        })
        .join()
        .unwrap();
        stats.merge(&g.1);
        if let Some(v) = g.0 {
            let e = classes.entry(v.code.clone()).or_insert((seed, 0, v.detail.clone()));
            e.1 += 1;
        }
    }
    println!("{} runs in {:?}", count, t0.elapsed());
    for (k, v) in &classes {
        println!("VIOL {k}: first seed {} count {} :: {}", v.0, v.1, v.2);
    }
    for (k, v) in &stats.0 {
        println!("  {k} = {v}");
    }
}
