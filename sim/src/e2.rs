//! E2: real `Server` loops (spawn_chitchat) on a scripted transport, paused clock, seeded tokio
//! scheduler. Serves C19 (and a transport-level bound for C17).

use std::cmp::Reverse;
use std::collections::{BTreeMap, BinaryHeap, HashMap};
use std::net::SocketAddr;
use std::sync::atomic::{AtomicBool, Ordering};
use std::sync::{Arc, Mutex};
use std::time::Duration;

use async_trait::async_trait;
use chitchat::transport::{Socket, Transport};
use chitchat::{spawn_chitchat, ChitchatConfig, ChitchatHandle, ChitchatId, ChitchatMessage, Deserializable, FailureDetectorConfig, NodeState, Serializable};
use serde::{Deserialize, Serialize};
use serde_json::Value;
use tokio::sync::mpsc;

use crate::codec::{self, BlockPlan, Id, Msg, NodeDigest};
use crate::common::{Outcome, Stats, Violation};
use crate::engine::{Engine, RunRecord};
use crate::rng::{Rng, Trace};

#[derive(Clone, Debug, Serialize, Deserialize)]
pub struct E2Cfg {
    pub n: usize,
    pub interval_ms: u64,
    pub net_seed: u64,
    pub seeds: Vec<usize>,
    pub dead_grace_ms: u64,
    /// per server: None = no seed host name; Some(slots) = its seed host name `seeds-<i>.sim:7000`
    /// first resolves to these slots (slot < n: that server's address, slot >= n: an address nobody
    /// listens on). Empty = name resolution is not simulated in this run.
    #[serde(default)]
    pub dns: Vec<Option<Vec<usize>>>,
    /// true: the servers run on chitchat's own `UdpTransport` (transport/udp.rs) whose system calls
    /// are scripted through the verif seam; false: on a scripted `Transport`/`Socket` implementation
    #[serde(default)]
    pub raw_udp: bool,
    /// the servers bind on one address (10.3.0.x) and advertise another (10.2.0.x), as behind NAT
    /// or with a 0.0.0.0 bind; the network routes by advertised address
    #[serde(default)]
    pub split_addr: bool,
    /// the seed list is shared: every server's own advertised address is in it as well
    #[serde(default)]
    pub self_in_seeds: bool,
    /// tombstone grace period of the servers; 0 = practically infinite (the ledger oracles of
    /// C02/C03 then need no taint classification and are on; with a real grace period they are off
    /// and the owner-side collection oracle of C06 is on)
    #[serde(default)]
    pub tomb_grace_ms: u64,
}

fn listen_addr(cfg: &E2Cfg, i: usize) -> SocketAddr {
    if cfg.split_addr { SocketAddr::from(([10, 3, 0, 1 + i as u8], 6000 + i as u16)) } else { addr(i) }
}

/// Bound used by the seed set oracle: five refresh periods of dns_refresh_loop
/// (DNS_POLLING_DURATION is 60 s). The property names no period, so the oracle only demands that a
/// change of the resolution is reflected within this generous bound.
const DNS_PERIOD_MS: u64 = 300_000;

fn dns_host(i: usize) -> String {
    format!("seeds-{i}.sim:7000")
}

#[derive(Clone, Debug, Serialize, Deserialize)]
pub enum E2Cmd {
    Advance { ms: u64 },
    Faults { drop_pct: u8, dup_pct: u8, send_err_pct: u8, max_delay_ms: u64 },
    Partition { a: usize, b: usize },
    Heal,
    Write { i: usize, key: String, value: String },
    /// op 0 delete, 1 set_with_ttl(value), 2 delete_after_ttl
    WriteOp { i: usize, key: String, value: String, op: u8 },
    /// undecodable bytes put on i's socket (hex)
    Garbage { to: usize, hex: String },
    /// a valid SYN from a synthetic peer; the server must answer it
    Probe { to: usize },
    /// a valid SYN of another cluster, padded (through its cluster id) to exactly `len` bytes: the
    /// server must answer it (with BadCluster) whatever its size up to the 65,507-byte limit
    BigProbe { to: usize, len: usize },
    /// the next send of server i fails / stalls for ms
    FailNextSends { i: usize, count: u32 },
    StallNextSend { i: usize, ms: u64 },
    FatalRecv { i: usize },
    /// the next receive call of server i fails with a transient error kind (0 connection reset,
    /// 1 connection refused, 2 out of memory); only meaningful in raw_udp runs
    TransientRecv { i: usize, kind: u8 },
    PanicCallback { i: usize },
    Shutdown { i: usize },
    /// n valid SYNs are waiting on server i's socket when the shutdown is requested: the request
    /// must be served within a bounded number of handled datagrams (bounded fairness of the loop)
    FloodShutdown { i: usize, n: u32 },
    /// user code queues n gossip commands (ChitchatHandle::gossip) in one go, without yielding to
    /// the loop, and then asks for a shutdown: the request must still complete (seeded/C19-12)
    BurstShutdown { i: usize, n: u32 },
    /// n valid SYNs are waiting on server i's socket and the reply to the first one is held by the
    /// transport for one gossip interval, so a round is due while the backlog is still there: the
    /// round must start within a bounded number of handled datagrams
    FloodRound { i: usize, n: u32 },
    /// user code holds the state lock of server i for ms
    HoldLock { i: usize, ms: u64 },
    Inspect,
    /// the name of server i's seed host now resolves to these slots (None: the lookup fails)
    Dns { i: usize, slots: Option<Vec<usize>> },
    /// compare server i's seed set with the resolution history (C17)
    SeedCheck { i: usize },
    /// ask server i to gossip with j now (ChitchatHandle::gossip)
    GossipCmd { i: usize, j: usize },
    /// snapshot server i's pools, let exactly its next gossip round happen with nothing delivered to
    /// it in between, and check the round's SYN destinations against the pools (C17)
    RoundCheck { i: usize },
    /// faults stop: heal, no loss; every server that still runs must bring its copy of every
    /// running member it knows to the owner's max version within `rounds` gossip intervals
    Quiesce { rounds: u64 },
}

enum Inbox {
    Datagram(SocketAddr, Vec<u8>),
    Fatal,
    /// a recv error of a kind the UDP transport must treat as transient (raw_udp runs only)
    Transient(u8),
}

impl Net {
    fn now(&self) -> u64 {
        self.start.elapsed().as_millis() as u64
    }
}

struct Net {
    rng: Rng,
    inboxes: HashMap<SocketAddr, mpsc::UnboundedSender<Inbox>>,
    queue: BinaryHeap<Reverse<(u64, u64, SocketAddr, SocketAddr, Vec<u8>)>>,
    seq: u64,
    start: tokio::time::Instant,
    drop_pct: u8,
    dup_pct: u8,
    send_err_pct: u8,
    max_delay_ms: u64,
    partitions: Vec<(SocketAddr, SocketAddr)>,
    fail_next: HashMap<SocketAddr, u32>,
    stall_next: HashMap<SocketAddr, u64>,
    stalled_until: HashMap<SocketAddr, u64>,
    trace: Trace,
    stats: Stats,
    /// SYNs per (sender, instant)
    syn_at: BTreeMap<(SocketAddr, u64), Vec<SocketAddr>>,
    /// replies seen towards the synthetic probe address
    probe_replies: u64,
    last_send_ms: HashMap<SocketAddr, u64>,
    /// bind address -> advertised address (the identity every other table uses)
    alias: HashMap<SocketAddr, SocketAddr>,
    /// first datagram a server handed to its socket that does not decode (C19)
    garbled: Option<String>,
    /// sends towards the synthetic probe address, per sender
    probe_sends: HashMap<SocketAddr, u64>,
    /// FloodRound in progress: (server, time from which a round is due, replies since then, closed by a SYN)
    flood_watch: Option<(SocketAddr, u64, u64, bool)>,
}

/// more handled datagrams than this between a due event (shutdown request, gossip tick) and its
/// service count as starvation; an unbiased three-way select misses 128 times in a row with
/// probability below 1e-22
const FAIRNESS_BOUND: u64 = 128;

fn probe_addr() -> SocketAddr {
    "10.9.0.9:9009".parse().unwrap()
}

fn addr(i: usize) -> SocketAddr {
    SocketAddr::from(([10, 2, 0, 1 + i as u8], 5000 + i as u16))
}

/// What the simulated network does with one datagram handed to a socket. Err = (errno, text).
async fn sim_send(net_arc: &Arc<Mutex<Net>>, me: SocketAddr, to: SocketAddr, bytes: Vec<u8>) -> Result<(), (i32, &'static str)> {
    let stall = {
        let mut net = net_arc.lock().unwrap();
        net.stall_next.remove(&me)
    };
    if let Some(ms) = stall {
        {
            let mut net = net_arc.lock().unwrap();
            net.stats.inc("fault_stalled_send");
            let until = net.now() + ms;
            net.stalled_until.insert(me, until);
        }
        tokio::time::sleep(Duration::from_millis(ms)).await;
    }
    let mut net = net_arc.lock().unwrap();
    net.stats.inc("sends");
    let kind = bytes.get(3).copied().unwrap_or(255) as u64;
    if bytes.len() <= codec::MAX_DATAGRAM && net.garbled.is_none() {
        match codec::decode(&bytes) {
            Err(e) => net.garbled = Some(format!("{me} handed {} bytes to its socket for {to} that do not decode as a chitchat message ({e})", bytes.len())),
            Ok((_, _, used)) if used != bytes.len() => {
                net.garbled = Some(format!("{me} handed {} bytes to its socket for {to} of which only the first {used} are a chitchat message", bytes.len()))
            }
            Ok(_) => {}
        }
    }
    let now = net.now();
    net.last_send_ms.insert(me, now);
    net.trace.u(now);
    net.trace.u(me.port() as u64);
    net.trace.u(to.port() as u64);
    net.trace.u(kind);
    net.trace.u(bytes.len() as u64);
    if kind == 0 {
        // SYNs of one gossip round carry the same own heartbeat (it rises once per round and
        // once per processed message, and the round is not interleaved with message handling)
        let own_hb = codec::decode(&bytes)
            .ok()
            .and_then(|(m, _, _)| m.digest().and_then(|d| d.iter().find(|(id, _)| id.addr == me).map(|(_, nd)| nd.heartbeat)))
            .unwrap_or(0);
        net.syn_at.entry((me, own_hb)).or_default().push(to);
    }
    if let Some((who, due_from, replies, closed)) = net.flood_watch.as_mut() {
        if *who == me && !*closed && now >= *due_from {
            if kind == 0 {
                *closed = true;
            } else if to == probe_addr() {
                *replies += 1;
            }
        }
    }
    if to == probe_addr() {
        net.probe_replies += 1;
        *net.probe_sends.entry(me).or_insert(0) += 1;
        return Ok(());
    }
    if bytes.len() > codec::MAX_DATAGRAM {
        net.stats.inc("fault_oversize_send_error");
        return Err((90, "message too long"));
    }
    if let Some(c) = net.fail_next.get_mut(&me) {
        if *c > 0 {
            *c -= 1;
            net.stats.inc("fault_send_error");
            return Err((113, "injected send error (host unreachable)"));
        }
    }
    let p = net.send_err_pct as u64;
    if net.rng.below(100) < p {
        net.stats.inc("fault_send_error");
        return Err((101, "injected send error"));
    }
    if net.partitions.iter().any(|(a, b)| (*a == me && *b == to) || (*b == me && *a == to)) {
        net.stats.inc("fault_partition_drop");
        return Ok(());
    }
    let p = net.drop_pct as u64;
    if net.rng.below(100) < p {
        net.stats.inc("fault_drop");
        return Ok(());
    }
    let md = net.max_delay_ms.max(1);
    let delay = 1 + net.rng.below(md);
    net.seq += 1;
    let (s, due) = (net.seq, net.now() + delay);
    net.queue.push(Reverse((due, s, me, to, bytes.clone())));
    let p = net.dup_pct as u64;
    if net.rng.below(100) < p {
        net.stats.inc("fault_duplicate");
        net.seq += 1;
        let s = net.seq;
        let d2 = due + net.rng.below(2000);
        net.queue.push(Reverse((d2, s, me, to, bytes)));
    }
    Ok(())
}

#[derive(Clone)]
struct SimTransport {
    net: Arc<Mutex<Net>>,
}

struct SimSocket {
    addr: SocketAddr,
    net: Arc<Mutex<Net>>,
    rx: mpsc::UnboundedReceiver<Inbox>,
}

#[async_trait]
impl Transport for SimTransport {
    async fn open(&self, listen_addr: SocketAddr) -> anyhow::Result<Box<dyn Socket>> {
        let (tx, rx) = mpsc::unbounded_channel();
        let public = self.net.lock().unwrap().alias.get(&listen_addr).copied().unwrap_or(listen_addr);
        self.net.lock().unwrap().inboxes.insert(public, tx);
        Ok(Box::new(SimSocket { addr: public, net: self.net.clone(), rx }))
    }
}

#[async_trait]
impl Socket for SimSocket {
    async fn send(&mut self, to: SocketAddr, msg: ChitchatMessage) -> anyhow::Result<()> {
        let bytes = msg.serialize_to_vec();
        sim_send(&self.net, self.addr, to, bytes).await.map_err(|e| anyhow::anyhow!(e.1))
    }

    async fn recv(&mut self) -> anyhow::Result<(SocketAddr, ChitchatMessage)> {
        loop {
            match self.rx.recv().await {
                Some(Inbox::Datagram(from, bytes)) => {
                    let mut cur = &bytes[..];
                    // as UdpSocket::receive_one: undecodable payloads are skipped
                    match ChitchatMessage::deserialize(&mut cur) {
                        Ok(m) => return Ok((from, m)),
                        Err(_) => {
                            self.net.lock().unwrap().stats.inc("undecodable_skipped");
                            continue;
                        }
                    }
                }
                Some(Inbox::Fatal) => anyhow::bail!("injected fatal recv error"),
                Some(Inbox::Transient(_)) => continue,
                None => anyhow::bail!("socket closed"),
            }
        }
    }
}

/// System-call level socket for chitchat's own UdpTransport (verif seam in transport/udp.rs).
struct SimRaw {
    addr: SocketAddr,
    net: Arc<Mutex<Net>>,
    rx: tokio::sync::Mutex<mpsc::UnboundedReceiver<Inbox>>,
}

#[async_trait]
impl chitchat::verif::SimUdpSocket for SimRaw {
    async fn recv_from(&self, buf: &mut [u8]) -> std::io::Result<(usize, SocketAddr)> {
        let mut rx = self.rx.lock().await;
        match rx.recv().await {
            Some(Inbox::Datagram(from, bytes)) => {
                // as the kernel: a datagram longer than the buffer is cut
                let n = bytes.len().min(buf.len());
                buf[..n].copy_from_slice(&bytes[..n]);
                if n < bytes.len() {
                    self.net.lock().unwrap().stats.inc("fault_oversize_datagram_cut_at_recv");
                }
                Ok((n, from))
            }
            Some(Inbox::Fatal) => Err(std::io::Error::from_raw_os_error(9)),
            Some(Inbox::Transient(kind)) => {
                self.net.lock().unwrap().stats.inc("fault_transient_recv_error");
                Err(std::io::Error::from(match kind % 3 {
                    0 => std::io::ErrorKind::ConnectionReset,
                    1 => std::io::ErrorKind::ConnectionRefused,
                    _ => std::io::ErrorKind::OutOfMemory,
                }))
            }
            None => std::future::pending().await,
        }
    }

    async fn send_to(&self, payload: &[u8], to_addr: SocketAddr) -> std::io::Result<usize> {
        match sim_send(&self.net, self.addr, to_addr, payload.to_vec()).await {
            Ok(()) => Ok(payload.len()),
            Err((errno, _)) => Err(std::io::Error::from_raw_os_error(errno)),
        }
    }
}

struct Srv {
    handle: Option<ChitchatHandle>,
    id: Id,
    panic_flag: Arc<AtomicBool>,
    last_hb: u64,
    last_hb_ms: u64,
    /// until when the heartbeat-progress oracle is suspended (lock held, stalled send)
    excused_until_ms: u64,
    ended: bool,
}

async fn advance_to(net: &Arc<Mutex<Net>>, target_ms: u64) {
    loop {
        let (now, next) = {
            let n = net.lock().unwrap();
            (n.now(), n.queue.peek().map(|Reverse(e)| e.0))
        };
        let stop = match next {
            Some(due) if due <= target_ms => due.max(now),
            _ => target_ms,
        };
        if stop > now {
            tokio::time::sleep(Duration::from_millis(stop - now)).await;
        }
        let mut delivered = false;
        loop {
            let ev = {
                let mut n = net.lock().unwrap();
                match n.queue.peek() {
                    Some(Reverse(e)) if e.0 <= stop => n.queue.pop().map(|Reverse(e)| e),
                    _ => None,
                }
            };
            let Some((_, _, from, to, bytes)) = ev else { break };
            let tx = net.lock().unwrap().inboxes.get(&to).cloned();
            if let Some(tx) = tx {
                let _ = tx.send(Inbox::Datagram(from, bytes));
            }
            delivered = true;
        }
        if delivered {
            // let the receivers run; a 1 us sleep returns only when every other task is idle
            tokio::time::sleep(Duration::from_micros(1)).await;
        }
        let more = net.lock().unwrap().queue.peek().map(|Reverse(e)| e.0 <= target_ms).unwrap_or(false);
        if stop >= target_ms && !more {
            break;
        }
    }
}

struct Run {
    cfg: E2Cfg,
    net: Arc<Mutex<Net>>,
    srv: Vec<Srv>,
    step: usize,
    log: Vec<String>,
    keep_log: bool,
    nontrivial: bool,
    gossip_cmds: HashMap<SocketAddr, usize>,
    /// per server: (key, version) -> (value, kind) as the owner stored it; key -> latest version
    ledger: Vec<HashMap<(String, u64), (String, u8)>>,
    latest: Vec<HashMap<String, u64>>,
    /// simulated name table and, per server, its history: (since ms, resolution or failure)
    dns_table: HashMap<String, Vec<SocketAddr>>,
    dns_hist: Vec<Vec<(u64, Option<Vec<SocketAddr>>)>>,
    /// per server: key -> (version, time) of the owner's latest deletion or TTL mark
    marks: Vec<HashMap<String, (u64, u64)>>,
}

fn kind_of(st: &chitchat::DeletionStatus) -> u8 {
    match st {
        chitchat::DeletionStatus::Set => 0,
        chitchat::DeletionStatus::Deleted(_) => 1,
        chitchat::DeletionStatus::DeleteAfterTtl(_) => 2,
    }
}

fn viol(step: usize, code: &str, detail: String) -> Violation {
    let prop = if code.starts_with("C06") { "C06" } else if code.starts_with("C17") { "C17" } else if code.starts_with("C01") { "C01" } else if code.starts_with("C02") { "C02" } else if code.starts_with("C03") { "C03" } else { "C19" };
    Violation { property: prop.into(), code: code.into(), step, detail, finding: String::new() }
}

impl Run {
    async fn new(cfg: E2Cfg, keep_log: bool) -> Run {
        let net = Arc::new(Mutex::new(Net {
            rng: Rng::new(cfg.net_seed),
            inboxes: HashMap::new(),
            queue: BinaryHeap::new(),
            seq: 0,
            start: tokio::time::Instant::now(),
            drop_pct: 0,
            dup_pct: 0,
            send_err_pct: 0,
            max_delay_ms: 20,
            partitions: Vec::new(),
            fail_next: HashMap::new(),
            stall_next: HashMap::new(),
            stalled_until: HashMap::new(),
            trace: Trace::default(),
            stats: Stats::default(),
            syn_at: BTreeMap::new(),
            probe_replies: 0,
            last_send_ms: HashMap::new(),
            alias: (0..cfg.n).map(|i| (listen_addr(&cfg, i), addr(i))).collect(),
            garbled: None,
            probe_sends: HashMap::new(),
            flood_watch: None,
        }));
        let transport = SimTransport { net: net.clone() };
        let mut srv = Vec::new();
        let mut dns_table: HashMap<String, Vec<SocketAddr>> = HashMap::new();
        let mut dns_hist: Vec<Vec<(u64, Option<Vec<SocketAddr>>)>> = vec![Vec::new(); cfg.n];
        for (i, e) in cfg.dns.iter().enumerate().take(cfg.n) {
            if let Some(slots) = e {
                let addrs: Vec<SocketAddr> = slots.iter().filter(|s| **s != i).map(|s| addr(*s)).collect();
                dns_table.insert(dns_host(i), addrs.clone());
                dns_hist[i].push((0, Some(addrs)));
            }
        }
        chitchat::verif::set_dns_table(if cfg.dns.is_empty() { None } else { Some(dns_table.clone()) });
        for i in 0..cfg.n {
            let flag = Arc::new(AtomicBool::new(false));
            let f2 = flag.clone();
            let id = Id { node_id: format!("s{i}"), generation: 0, addr: addr(i) };
            let config = ChitchatConfig {
                chitchat_id: ChitchatId::new(id.node_id.clone(), 0, addr(i)),
                cluster_id: "c".into(),
                gossip_interval: Duration::from_millis(cfg.interval_ms),
                listen_addr: listen_addr(&cfg, i),
                seed_nodes: cfg
                    .seeds
                    .iter()
                    .filter(|s| **s != i || cfg.self_in_seeds)
                    .map(|s| addr(*s).to_string())
                    .chain(cfg.dns.get(i).and_then(|e| e.as_ref()).map(|_| dns_host(i)))
                    .collect(),
                failure_detector_config: FailureDetectorConfig { dead_node_grace_period: Duration::from_millis(cfg.dead_grace_ms), ..Default::default() },
                // no tombstone GC in E2 runs: the ledger oracles below then need no taint classification
                marked_for_deletion_grace_period: if cfg.tomb_grace_ms > 0 { Duration::from_millis(cfg.tomb_grace_ms) } else { Duration::from_secs(10_000_000) },
                catchup_callback: None,
                extra_liveness_predicate: Some(Box::new(move |_: &NodeState| {
                    if f2.load(Ordering::SeqCst) {
                        panic!("injected predicate panic");
                    }
                    true
                })),
            };
            let handle = if cfg.raw_udp {
                let net2 = net.clone();
                chitchat::verif::set_udp_factory(Some(Box::new(move |bind_addr| {
                    let (tx, rx) = mpsc::unbounded_channel();
                    let public = net2.lock().unwrap().alias.get(&bind_addr).copied().unwrap_or(bind_addr);
                    net2.lock().unwrap().inboxes.insert(public, tx);
                    Ok(Box::new(SimRaw { addr: public, net: net2.clone(), rx: tokio::sync::Mutex::new(rx) }) as Box<dyn chitchat::verif::SimUdpSocket>)
                })));
                let h = spawn_chitchat(config, vec![("k".into(), format!("v{i}"))], &chitchat::transport::UdpTransport).await.expect("spawn");
                chitchat::verif::set_udp_factory(None);
                h
            } else {
                spawn_chitchat(config, vec![("k".into(), format!("v{i}"))], &transport).await.expect("spawn")
            };
            srv.push(Srv { handle: Some(handle), id, panic_flag: flag, last_hb: 0, last_hb_ms: 0, excused_until_ms: 0, ended: false });
        }
        {
            let n = cfg.n;
            // the initial key-value handed to spawn_chitchat is the owner's first write
            let mut ledger = vec![HashMap::new(); n];
            let mut latest = vec![HashMap::new(); n];
            for i in 0..n {
                ledger[i].insert(("k".to_string(), 1u64), (format!("v{i}"), 0u8));
                latest[i].insert("k".to_string(), 1u64);
            }
            Run { cfg, net, srv, step: 0, log: Vec::new(), keep_log, nontrivial: false, gossip_cmds: HashMap::new(), ledger, latest, dns_table, dns_hist, marks: vec![HashMap::new(); n] }
        }
    }

    fn now(&self) -> u64 {
        self.net.lock().unwrap().now()
    }

    /// Extra simulated time a terminal request on server i may take because of a stall or lock.
    fn excuse_budget(&self, i: usize) -> u64 {
        let net = self.net.lock().unwrap();
        let now = net.now();
        let armed = net.stall_next.get(&addr(i)).copied().unwrap_or(0);
        let stalled = net.stalled_until.get(&addr(i)).copied().unwrap_or(0).saturating_sub(now);
        let locked = self.srv[i].excused_until_ms.saturating_sub(now);
        armed + stalled + locked + if armed + stalled + locked > 0 { self.cfg.interval_ms } else { 0 }
    }

    /// Until when server i is excused from the progress oracles: the user held its lock, or one of
    /// its sends is (or is about to be) stalled. u64::MAX while a stall is armed but not consumed.
    fn excused_until(&self, i: usize) -> u64 {
        let net = self.net.lock().unwrap();
        if net.stall_next.contains_key(&addr(i)) {
            return u64::MAX;
        }
        let st = net.stalled_until.get(&addr(i)).copied().unwrap_or(0);
        self.srv[i].excused_until_ms.max(st)
    }

    /// C17, seed set under name resolution: server i's seed set is its literal seeds plus what its
    /// seed host name resolved to at the last refresh. An address the name has not resolved to for
    /// a full refresh period must be gone; one it resolved to throughout must be there.
    async fn seed_check(&mut self, i: usize) -> Result<(), Violation> {
        if i >= self.srv.len() || self.srv[i].ended || self.dns_hist[i].is_empty() {
            return Ok(());
        }
        let Some(h) = self.srv[i].handle.as_ref() else { return Ok(()) };
        let Ok(seeds) = tokio::time::timeout(Duration::from_millis(self.cfg.interval_ms * 10), h.with_chitchat(|c| c.seed_nodes())).await else {
            return Ok(());
        };
        let now = self.now();
        let from = now.saturating_sub(DNS_PERIOD_MS + 10);
        let hist = &self.dns_hist[i];
        // resolutions in force at some moment of [from, now]
        let in_window: Vec<&Option<Vec<SocketAddr>>> =
            hist.iter().enumerate().filter(|(k, (t, _))| *t <= now && hist.get(k + 1).map(|n| n.0 >= from).unwrap_or(true)).map(|(_, e)| &e.1).collect();
        let literal: Vec<SocketAddr> = self.cfg.seeds.iter().filter(|s| **s != i || self.cfg.self_in_seeds).map(|s| addr(*s)).collect();
        self.net.lock().unwrap().stats.inc("seed_checks");
        self.nontrivial = true;
        if hist.len() > 1 && now > hist[1].0 + DNS_PERIOD_MS + 10 {
            self.net.lock().unwrap().stats.inc("probe_seed_set_after_a_refresh_that_saw_a_change");
        }
        for a in &seeds {
            if !literal.contains(a) && !in_window.iter().any(|e| e.as_ref().map(|v| v.contains(a)).unwrap_or(false)) {
                return Err(viol(
                    self.step,
                    "C17.stale_seed",
                    format!("server {i} at {now} ms: seed set still holds {a}, which its seed host name has not resolved to for {DNS_PERIOD_MS} ms (five refresh periods)"),
                ));
            }
        }
        for a in &literal {
            if !seeds.contains(a) {
                return Err(viol(self.step, "C17.seed_missing", format!("server {i} at {now} ms: literal seed {a} is not in the seed set")));
            }
        }
        if let Some(Some(first)) = in_window.first() {
            for a in first {
                if in_window.iter().all(|e| e.as_ref().map(|v| v.contains(a)).unwrap_or(false)) && !seeds.contains(a) {
                    return Err(viol(
                        self.step,
                        "C17.seed_missing",
                        format!("server {i} at {now} ms: {a}, which its seed host name resolved to throughout the last {DNS_PERIOD_MS} ms, is not in the seed set"),
                    ));
                }
            }
        }
        Ok(())
    }

    async fn inspect(&mut self) -> Result<(), Violation> {
        let now = self.now();
        let interval = self.cfg.interval_ms;
        for i in 0..self.srv.len() {
            if self.srv[i].ended {
                continue;
            }
            let Some(h) = &self.srv[i].handle else { continue };
            // user access must return: nobody holds the lock at an inspection point
            let res = tokio::time::timeout(Duration::from_millis(interval * 10), h.with_chitchat(|c| {
                let hb: u64 = c.self_node_state().heartbeat().into();
                (hb, c.live_nodes().count(), c.dead_nodes().count(), c.node_states().len())
            }))
            .await;
            let now2 = self.now();
            let _ = now2;
            let Ok((hb, live, dead, known)) = res else {
                return Err(viol(self.step, "C19.deadlock", format!("with_chitchat on server {i} did not return within {} simulated ms", interval * 10)));
            };
            {
                let mut n = self.net.lock().unwrap();
                n.trace.u(hb);
                n.trace.u(live as u64);
                n.trace.u(dead as u64);
                n.trace.u(known as u64);
            }
            let excused = self.excused_until(i);
            let s = &mut self.srv[i];
            if hb > s.last_hb {
                s.last_hb = hb;
                s.last_hb_ms = now;
            } else if excused != u64::MAX {
                let since = now.saturating_sub(s.last_hb_ms.max(excused));
                if since >= 2 * interval + 5 {
                    return Err(viol(
                        self.step,
                        "C19.stalled",
                        format!("server {i}: own heartbeat stuck at {hb} for {since} ms of simulated time (interval {interval} ms) with the lock free and no stalled send"),
                    ));
                }
            }
        }
        Ok(())
    }

    async fn apply(&mut self, cmd: &E2Cmd) -> Result<(), Violation> {
        let r = self.apply_inner(cmd).await;
        if r.is_ok() {
            if let Some(g) = self.net.lock().unwrap().garbled.take() {
                return Err(viol(self.step, "C19.garbled_send", g));
            }
        }
        r
    }

    async fn apply_inner(&mut self, cmd: &E2Cmd) -> Result<(), Violation> {
        self.step += 1;
        if self.keep_log {
            self.log.push(format!("[{} t={}] {:?}", self.step, self.now(), cmd));
        }
        let n = self.srv.len();
        match cmd {
            E2Cmd::Advance { ms } => {
                let t = self.now() + (*ms).min(600_000);
                advance_to(&self.net, t).await;
                // C17 transport bound: at most 3 + 1 + 1 SYNs per round
                let mut net = self.net.lock().unwrap();
                let interval = self.cfg.interval_ms;
                let rounds: Vec<((SocketAddr, u64), Vec<SocketAddr>)> = std::mem::take(&mut net.syn_at).into_iter().collect();
                for ((from, at), tos) in rounds {
                    net.stats.inc("gossip_rounds_observed");
                    if tos.contains(&from) && self.gossip_cmds.get(&from).copied().unwrap_or(0) == 0 {
                        return Err(viol(self.step, "C17.gossip_to_self", format!("{from} sent a SYN to its own address in the round with own heartbeat {at}")));
                    }
                    let extra = self.gossip_cmds.get(&from).copied().unwrap_or(0);
                    if tos.len() > 5 + extra {
                        return Err(viol(self.step, "C17.too_many_syns", format!("{from} sent {} SYNs in the round with own heartbeat {at} (interval {interval}, {extra} user gossip commands)", tos.len())));
                    }
                }
                Ok(())
            }
            E2Cmd::Faults { drop_pct, dup_pct, send_err_pct, max_delay_ms } => {
                let mut net = self.net.lock().unwrap();
                net.drop_pct = *drop_pct;
                net.dup_pct = *dup_pct;
                net.send_err_pct = *send_err_pct;
                net.max_delay_ms = *max_delay_ms;
                if *send_err_pct > 0 {
                    self.nontrivial = true;
                }
                Ok(())
            }
            E2Cmd::Partition { a, b } => {
                if *a < n && *b < n {
                    self.net.lock().unwrap().partitions.push((addr(*a), addr(*b)));
                }
                Ok(())
            }
            E2Cmd::Heal => {
                self.net.lock().unwrap().partitions.clear();
                Ok(())
            }
            E2Cmd::Write { i, key, value } => self.write(*i, key, value, 9).await,
            E2Cmd::WriteOp { i, key, value, op } => self.write(*i, key, value, *op).await,
            E2Cmd::Garbage { to, hex } => {
                if *to < n {
                    let tx = self.net.lock().unwrap().inboxes.get(&addr(*to)).cloned();
                    if let Some(tx) = tx {
                        let _ = tx.send(Inbox::Datagram(probe_addr(), crate::e1::types::unhex(hex)));
                        self.net.lock().unwrap().stats.inc("fault_garbage_datagram");
                        self.nontrivial = true;
                    }
                }
                Ok(())
            }
            E2Cmd::Probe { to } => {
                let Some(s) = self.srv.get(*to) else { return Ok(()) };
                if s.ended || s.handle.is_none() {
                    return Ok(());
                }
                let excused = self.excused_until(*to) > self.now();
                let before = self.net.lock().unwrap().probe_replies;
                let syn = Msg::Syn {
                    digest: vec![(Id { node_id: "probe".into(), generation: 0, addr: probe_addr() }, NodeDigest { heartbeat: 1 + self.step as u64, gc: 0, max: 0 })],
                    cluster: "c".into(),
                };
                let bytes = codec::encode(&syn, BlockPlan::Auto { size: 16_384 });
                let tx = self.net.lock().unwrap().inboxes.get(&addr(*to)).cloned();
                if let Some(tx) = tx {
                    let _ = tx.send(Inbox::Datagram(probe_addr(), bytes));
                }
                // the answer is produced as soon as the loop runs; allow the in-progress round to finish
                let t = self.now() + 2;
                advance_to(&self.net, t).await;
                let after = self.net.lock().unwrap().probe_replies;
                self.net.lock().unwrap().stats.inc("probes_sent");
                if after == before && !excused {
                    return Err(viol(self.step, "C19.unanswered", format!("server {to} did not answer a valid SYN within 2 ms of simulated time")));
                }
                Ok(())
            }
            E2Cmd::BigProbe { to, len } => {
                let Some(s) = self.srv.get(*to) else { return Ok(()) };
                if s.ended || s.handle.is_none() {
                    return Ok(());
                }
                let excused = self.excused_until(*to) > self.now();
                let target = (*len).clamp(16, codec::MAX_DATAGRAM);
                let base = codec::encode(&Msg::Syn { digest: vec![], cluster: String::new() }, BlockPlan::Auto { size: 16_384 }).len();
                let bytes = codec::encode(&Msg::Syn { digest: vec![], cluster: "z".repeat(target - base) }, BlockPlan::Auto { size: 16_384 });
                if bytes.len() != target {
                    return Ok(());
                }
                let before = self.net.lock().unwrap().probe_replies;
                let tx = self.net.lock().unwrap().inboxes.get(&addr(*to)).cloned();
                if let Some(tx) = tx {
                    let _ = tx.send(Inbox::Datagram(probe_addr(), bytes));
                }
                let t = self.now() + 2;
                advance_to(&self.net, t).await;
                let after = self.net.lock().unwrap().probe_replies;
                self.net.lock().unwrap().stats.inc("probe_maximal_datagram_received");
                self.nontrivial = true;
                if after == before && !excused {
                    return Err(viol(self.step, "C19.unanswered", format!("server {to} did not answer a valid SYN of {target} bytes within 2 ms of simulated time")));
                }
                Ok(())
            }
            E2Cmd::FailNextSends { i, count } => {
                if *i < n {
                    self.net.lock().unwrap().fail_next.insert(addr(*i), *count);
                    self.nontrivial = true;
                }
                Ok(())
            }
            E2Cmd::StallNextSend { i, ms } => {
                if *i < n {
                    self.net.lock().unwrap().stall_next.insert(addr(*i), *ms);
                    self.nontrivial = true;
                }
                Ok(())
            }
            E2Cmd::TransientRecv { i, kind } => {
                if !self.cfg.raw_udp || *i >= n || self.srv[*i].ended {
                    return Ok(());
                }
                let tx = self.net.lock().unwrap().inboxes.get(&addr(*i)).cloned();
                if let Some(tx) = tx {
                    let _ = tx.send(Inbox::Transient(*kind));
                    self.nontrivial = true;
                }
                Ok(())
            }
            E2Cmd::FatalRecv { i } => {
                let excused_ms_pre = if *i < n { self.excuse_budget(*i) } else { 0 };
                let Some(s) = self.srv.get_mut(*i) else { return Ok(()) };
                if s.ended {
                    return Ok(());
                }
                let Some(h) = s.handle.as_ref() else { return Ok(()) };
                let excused_ms = excused_ms_pre;
                let w = h.termination_watcher();
                let tx = self.net.lock().unwrap().inboxes.get(&addr(*i)).cloned();
                if let Some(tx) = tx {
                    let _ = tx.send(Inbox::Fatal);
                }
                self.net.lock().unwrap().stats.inc("fault_fatal_recv");
                self.nontrivial = true;
                let r = tokio::time::timeout(Duration::from_millis(self.cfg.interval_ms + excused_ms + 5), w).await;
                self.resync_clock();
                s_end(&mut self.srv[*i]);
                match r {
                    Ok(Err(_)) => Ok(()),
                    Ok(Ok(())) => Err(viol(self.step, "C19.fatal_reported_ok", format!("server {i}: fatal receive error ended the loop but the termination watcher reports success"))),
                    Err(_) => Err(viol(self.step, "C19.fatal_not_reported", format!("server {i}: termination watcher silent after a fatal receive error"))),
                }
            }
            E2Cmd::PanicCallback { i } => {
                let excused_ms_pre = if *i < n { self.excuse_budget(*i) } else { 0 };
                let Some(s) = self.srv.get(*i) else { return Ok(()) };
                if s.ended {
                    return Ok(());
                }
                let Some(h) = s.handle.as_ref() else { return Ok(()) };
                let excused_ms = excused_ms_pre;
                let w = h.termination_watcher();
                s.panic_flag.store(true, Ordering::SeqCst);
                self.net.lock().unwrap().stats.inc("fault_callback_panic");
                self.nontrivial = true;
                // the predicate runs at the next liveness evaluation, i.e. within one gossip interval
                let r = tokio::time::timeout(Duration::from_millis(2 * self.cfg.interval_ms + excused_ms + 5), w).await;
                self.resync_clock();
                self.srv[*i].panic_flag.store(false, Ordering::SeqCst);
                s_end(&mut self.srv[*i]);
                match r {
                    Ok(Err(_)) => Ok(()),
                    Ok(Ok(())) => Err(viol(self.step, "C19.panic_reported_ok", format!("server {i}: a panic ended the loop but the termination watcher reports success"))),
                    Err(_) => Err(viol(self.step, "C19.panic_not_reported", format!("server {i}: termination watcher silent after a panic in a user callback"))),
                }
            }
            E2Cmd::Shutdown { i } => {
                let excused_ms_pre = if *i < n { self.excuse_budget(*i) } else { 0 };
                let Some(s) = self.srv.get_mut(*i) else { return Ok(()) };
                if s.ended {
                    return Ok(());
                }
                let Some(h) = s.handle.take() else { return Ok(()) };
                let excused_ms = excused_ms_pre;
                self.net.lock().unwrap().stats.inc("shutdown_requests");
                self.nontrivial = true;
                let r = tokio::time::timeout(Duration::from_millis(self.cfg.interval_ms + excused_ms + 5), h.shutdown()).await;
                self.resync_clock();
                self.srv[*i].ended = true;
                match r {
                    Ok(Ok(())) => Ok(()),
                    Ok(Err(e)) => Err(viol(self.step, "C19.shutdown_error", format!("server {i}: shutdown returned an error: {e}"))),
                    Err(_) => Err(viol(self.step, "C19.shutdown_hangs", format!("server {i}: shutdown did not complete within one gossip interval"))),
                }
            }
            E2Cmd::FloodShutdown { i, n: count } => {
                let excused_ms = if *i < n { self.excuse_budget(*i) } else { 0 };
                let Some(s) = self.srv.get_mut(*i) else { return Ok(()) };
                if s.ended {
                    return Ok(());
                }
                let Some(h) = s.handle.take() else { return Ok(()) };
                let me = addr(*i);
                let flood = codec::encode(&Msg::Syn { digest: vec![], cluster: "c".into() }, BlockPlan::Auto { size: 16_384 });
                let before = {
                    let net = self.net.lock().unwrap();
                    if let Some(tx) = net.inboxes.get(&me) {
                        for _ in 0..(*count).min(2000) {
                            let _ = tx.send(Inbox::Datagram(probe_addr(), flood.clone()));
                        }
                    }
                    net.probe_sends.get(&me).copied().unwrap_or(0)
                };
                {
                    let mut net = self.net.lock().unwrap();
                    net.stats.inc("shutdown_requests");
                    net.stats.inc("fault_backlog_at_shutdown");
                }
                self.nontrivial = true;
                let r = tokio::time::timeout(Duration::from_millis(self.cfg.interval_ms + excused_ms + 5), h.shutdown()).await;
                self.srv[*i].ended = true;
                let handled = self.net.lock().unwrap().probe_sends.get(&me).copied().unwrap_or(0) - before;
                match r {
                    Ok(Ok(())) if handled > FAIRNESS_BOUND && excused_ms == 0 => Err(viol(
                        self.step,
                        "C19.shutdown_starved",
                        format!("server {i}: {handled} waiting datagrams were answered after the shutdown request before it was served (bound {FAIRNESS_BOUND})"),
                    )),
                    Ok(Ok(())) => Ok(()),
                    Ok(Err(e)) => Err(viol(self.step, "C19.shutdown_error", format!("server {i}: shutdown returned an error: {e}"))),
                    Err(_) => Err(viol(self.step, "C19.shutdown_hangs", format!("server {i}: shutdown did not complete within one gossip interval"))),
                }
            }
            E2Cmd::BurstShutdown { i, n: count } => {
                let excused_ms = if *i < n { self.excuse_budget(*i) } else { 0 };
                let Some(s) = self.srv.get_mut(*i) else { return Ok(()) };
                if s.ended {
                    return Ok(());
                }
                let Some(h) = s.handle.take() else { return Ok(()) };
                let mut accepted = 0usize;
                for k in 0..(*count).min(2000) as usize {
                    if h.gossip(addr(k % n)).is_ok() {
                        accepted += 1;
                    }
                }
                *self.gossip_cmds.entry(addr(*i)).or_insert(0) += accepted;
                {
                    let mut net = self.net.lock().unwrap();
                    net.stats.inc("shutdown_requests");
                    net.stats.inc("fault_command_burst_at_shutdown");
                }
                self.nontrivial = true;
                let r = tokio::time::timeout(Duration::from_millis(self.cfg.interval_ms + excused_ms + 5), h.shutdown()).await;
                self.resync_clock();
                self.srv[*i].ended = true;
                match r {
                    Ok(Ok(())) => Ok(()),
                    Ok(Err(e)) => Err(viol(self.step, "C19.shutdown_error", format!("server {i}: shutdown returned an error: {e}"))),
                    Err(_) => Err(viol(self.step, "C19.shutdown_hangs", format!("server {i}: shutdown requested right after {count} queued gossip commands did not complete within one gossip interval"))),
                }
            }
            E2Cmd::FloodRound { i, n: count } => {
                let i = *i;
                if i >= n || self.srv[i].ended || self.srv[i].handle.is_none() || self.excuse_budget(i) > 0 {
                    return Ok(());
                }
                let me = addr(i);
                // let the server drain what it has, then make sure its rounds send at least one SYN
                tokio::time::sleep(Duration::from_micros(1)).await;
                let h = self.srv[i].handle.as_ref().unwrap();
                let Ok(has_target) = tokio::time::timeout(Duration::from_millis(self.cfg.interval_ms * 10), h.with_chitchat(|c| { let own = c.self_chitchat_id().gossip_advertise_addr; c.node_states().len() > 1 || c.seed_nodes().iter().any(|a| *a != own) })).await else {
                    return Ok(());
                };
                if !has_target {
                    return Ok(());
                }
                let interval = self.cfg.interval_ms;
                let flood = codec::encode(&Msg::Syn { digest: vec![], cluster: "c".into() }, BlockPlan::Auto { size: 16_384 });
                {
                    let mut net = self.net.lock().unwrap();
                    let now = net.now();
                    net.stall_next.insert(me, interval);
                    net.flood_watch = Some((me, now + interval, 0, false));
                    if let Some(tx) = net.inboxes.get(&me) {
                        for _ in 0..(*count).min(2000) {
                            let _ = tx.send(Inbox::Datagram(probe_addr(), flood.clone()));
                        }
                    }
                    net.stats.inc("fault_backlog_across_a_tick");
                }
                self.nontrivial = true;
                let t = self.now() + interval + 3;
                advance_to(&self.net, t).await;
                let watch = self.net.lock().unwrap().flood_watch.take();
                {
                    // the stall armed above was consumed by the first reply; if the server sent nothing, disarm it
                    self.net.lock().unwrap().stall_next.remove(&me);
                }
                if let Some((_, _, replies, _)) = watch {
                    // the start of the round is recognised by its first SYN: a name-resolution refresh
                    // that fell inside the window may have emptied the seed set (the lookup fails
                    // since an earlier Dns command), and a round without targets sends nothing.
                    // The oracle only speaks when the node still had a target at the end.
                    let still_has_target = match self.srv[i].handle.as_ref() {
                        Some(h) => tokio::time::timeout(Duration::from_millis(self.cfg.interval_ms * 10), h.with_chitchat(|c| { let own = c.self_chitchat_id().gossip_advertise_addr; c.node_states().len() > 1 || c.seed_nodes().iter().any(|a| *a != own) })).await.unwrap_or(false),
                        None => false,
                    };
                    self.resync_clock();
                    if replies > FAIRNESS_BOUND && !still_has_target {
                        self.net.lock().unwrap().stats.inc("probe_flood_round_lost_its_targets");
                    }
                    if replies > FAIRNESS_BOUND && still_has_target {
                        return Err(viol(
                            self.step,
                            "C19.round_starved",
                            format!("server {i}: {replies} waiting datagrams were answered after a gossip round became due and before the round started (bound {FAIRNESS_BOUND})"),
                        ));
                    }
                }
                Ok(())
            }
            E2Cmd::HoldLock { i, ms } => {
                let excused_ms_pre = if *i < n { self.excuse_budget(*i) } else { 0 };
                let Some(s) = self.srv.get_mut(*i) else { return Ok(()) };
                if s.ended {
                    return Ok(());
                }
                let Some(h) = s.handle.as_ref() else { return Ok(()) };
                let arc = h.chitchat();
                let ms = (*ms).min(60_000);
                let r = tokio::time::timeout(Duration::from_millis(self.cfg.interval_ms * 10 + s.excused_until_ms), arc.lock()).await;
                match r {
                    Err(_) => {
                        self.resync_clock();
                        Err(viol(self.step, "C19.deadlock", format!("user lock on server {i} not granted within 10 intervals")))
                    }
                    Ok(guard) => {
                        let t = self.net.lock().unwrap().now() + ms;
                        advance_to(&self.net, t).await;
                        drop(guard);
                        self.net.lock().unwrap().stats.inc("fault_user_holds_lock");
                        self.nontrivial = true;
                        let now = self.net.lock().unwrap().now();
                        let s = &mut self.srv[*i];
                        s.excused_until_ms = s.excused_until_ms.max(now);
                        Ok(())
                    }
                }
            }
            E2Cmd::RoundCheck { i } => {
                let i = *i;
                let Some(srv) = self.srv.get(i) else { return Ok(()) };
                if srv.ended || srv.handle.is_none() || self.excuse_budget(i) > 0 {
                    return Ok(());
                }
                let me = addr(i);
                self.seed_check(i).await?;
                // let the server drain what is already in its inbox (and fire any missed ticks):
                // a 1 us sleep on the paused clock returns only when every other task is idle
                tokio::time::sleep(Duration::from_micros(1)).await;
                let srv = &self.srv[i];
                let h = srv.handle.as_ref().unwrap();
                let pools = tokio::time::timeout(
                    Duration::from_millis(self.cfg.interval_ms * 10),
                    h.with_chitchat(|c| {
                        let own = c.self_chitchat_id().clone();
                        let peers: Vec<SocketAddr> = c.node_states().keys().filter(|id| **id != own).map(|id| id.gossip_advertise_addr).collect();
                        let live: Vec<SocketAddr> = c.live_nodes().filter(|id| **id != own).map(|id| id.gossip_advertise_addr).collect();
                        let dead: Vec<SocketAddr> = c.dead_nodes().map(|id| id.gossip_advertise_addr).collect();
                        let seeds: Vec<SocketAddr> = c.seed_nodes().into_iter().filter(|a| *a != own.gossip_advertise_addr).collect();
                        (peers, live, dead, seeds)
                    }),
                )
                .await;
                let Ok((peers, live, dead, seeds)) = pools else {
                    return Err(viol(self.step, "C19.deadlock", format!("with_chitchat on server {i} did not return")));
                };
                {
                    let mut net = self.net.lock().unwrap();
                    let keys: Vec<(SocketAddr, u64)> = net.syn_at.keys().filter(|k| k.0 == me).cloned().collect();
                    for k in keys {
                        net.syn_at.remove(&k);
                    }
                }
                let user_cmds_before = self.gossip_cmds.get(&me).copied().unwrap_or(0);
                // nothing is delivered while we wait: the queue is only drained by advance_to
                tokio::time::sleep(Duration::from_millis(self.cfg.interval_ms + 2)).await;
                let first_round: Option<Vec<SocketAddr>> = {
                    let mut net = self.net.lock().unwrap();
                    let mut rounds: Vec<(u64, Vec<SocketAddr>)> = net.syn_at.iter().filter(|(k, _)| k.0 == me).map(|(k, v)| (k.1, v.clone())).collect();
                    rounds.sort();
                    net.stats.inc("round_checks");
                    rounds.into_iter().next().map(|r| r.1)
                };
                let Some(tos) = first_round else {
                    self.net.lock().unwrap().stats.inc("round_checks_without_syn");
                    return Ok(());
                };
                // a name refresh may have replaced the seed set while we waited for the round: a
                // destination may come from either set, and a seed is only owed when both had one
                let mut seeds = seeds;
                let mut seed_owed = !seeds.is_empty();
                if !self.dns_hist[i].is_empty() {
                    let h = self.srv[i].handle.as_ref().unwrap();
                    if let Ok(after) = tokio::time::timeout(Duration::from_millis(self.cfg.interval_ms * 10), h.with_chitchat(|c| c.seed_nodes())).await {
                        let after: Vec<SocketAddr> = after.into_iter().filter(|a| *a != me).collect();
                        seed_owed = seed_owed && !after.is_empty();
                        for a in after {
                            if !seeds.contains(&a) {
                                seeds.push(a);
                            }
                        }
                    }
                }
                if user_cmds_before > 0 {
                    return Ok(());
                }
                self.nontrivial = true;
                let pool: &Vec<SocketAddr> = if live.is_empty() { &peers } else { &live };
                let desc = format!("server {i}: peers {} live {} dead {} seeds {}, SYNs to {:?}", peers.len(), live.len(), dead.len(), seeds.len(), tos.iter().map(|a| a.port()).collect::<Vec<_>>());
                for t in &tos {
                    if !peers.contains(t) && !seeds.contains(t) {
                        return Err(viol(self.step, "C17.outside_pools", format!("{desc}: destination outside peers and seeds")));
                    }
                }
                let in_pool = tos.iter().filter(|t| pool.contains(t)).count();
                if in_pool < pool.len().min(3) {
                    return Err(viol(self.step, "C17.too_few", format!("{desc}: only {in_pool} destinations in the pool of {}", pool.len())));
                }
                if dead.len() > live.len() && !tos.iter().any(|t| dead.contains(t)) {
                    return Err(viol(self.step, "C17.dead_not_forced", format!("{desc}: dead peers outnumber live ones but none was contacted")));
                }
                if live.is_empty() && seed_owed && !tos.iter().any(|t| seeds.contains(t)) {
                    return Err(viol(self.step, "C17.seed_not_forced", format!("{desc}: no live peer, a seed exists, yet no seed was contacted")));
                }
                Ok(())
            }
            E2Cmd::Dns { i, slots } => {
                let i = *i;
                if i >= self.srv.len() || self.dns_hist[i].is_empty() {
                    return Ok(());
                }
                let now = self.now();
                let val: Option<Vec<SocketAddr>> = slots.as_ref().map(|v| v.iter().filter(|s| **s != i && **s < 8).map(|s| addr(*s)).collect());
                match &val {
                    Some(v) => {
                        self.dns_table.insert(dns_host(i), v.clone());
                        self.net.lock().unwrap().stats.inc("fault_dns_change");
                    }
                    None => {
                        self.dns_table.remove(&dns_host(i));
                        self.net.lock().unwrap().stats.inc("fault_dns_failure");
                    }
                }
                chitchat::verif::set_dns_table(Some(self.dns_table.clone()));
                self.dns_hist[i].push((now, val));
                Ok(())
            }
            E2Cmd::SeedCheck { i } => self.seed_check(*i).await,
            E2Cmd::Inspect => {
                for i in 0..self.srv.len() {
                    self.seed_check(i).await?;
                }
                self.inspect().await?;
                self.collection_check().await?;
                self.check_copies().await
            }
            E2Cmd::Quiesce { rounds } => {
                {
                    let mut net = self.net.lock().unwrap();
                    net.partitions.clear();
                    net.drop_pct = 0;
                    net.dup_pct = 0;
                    net.send_err_pct = 0;
                    net.max_delay_ms = 5;
                    net.fail_next.clear();
                    net.stall_next.clear();
                }
                let mut lag = String::new();
                let mut done = 0;
                while done < *rounds {
                    let t = self.now() + 5 * self.cfg.interval_ms;
                    advance_to(&self.net, t).await;
                    done += 5;
                    lag = self.lagging().await;
                    if lag.is_empty() {
                        break;
                    }
                }
                self.net.lock().unwrap().stats.max("max_e2_quiesce_rounds", done);
                self.nontrivial = true;
                if !lag.is_empty() {
                    return Err(viol(self.step, "C01.e2_not_converged", format!("after {done} loss-free gossip intervals on the real server loop: {lag}")));
                }
                Ok(())
            }
            E2Cmd::GossipCmd { i, j } => {
                if let (Some(s), true) = (self.srv.get(*i), *j < n) {
                    if !s.ended {
                        if let Some(h) = &s.handle {
                            let _ = h.gossip(addr(*j));
                            *self.gossip_cmds.entry(addr(*i)).or_insert(0) += 1;
                        }
                    }
                }
                Ok(())
            }
        }
    }

    async fn write(&mut self, i: usize, key: &str, value: &str, op: u8) -> Result<(), Violation> {
        let Some(h) = self.srv.get(i).and_then(|s| if s.ended { None } else { s.handle.as_ref() }) else { return Ok(()) };
        let r = tokio::time::timeout(
            Duration::from_millis(self.cfg.interval_ms * 10 + self.excuse_budget(i)),
            h.with_chitchat(|c| {
                let ns = c.self_node_state();
                match op {
                    0 => ns.delete(key),
                    1 => ns.set_with_ttl(key, value),
                    2 => ns.delete_after_ttl(key),
                    _ => ns.set(key, value),
                }
                ns.get_versioned(key).map(|v| (v.value.clone(), v.version, kind_of(&v.status)))
            }),
        )
        .await;
        match r {
            Err(_) => Err(viol(self.step, "C19.deadlock", format!("with_chitchat (write) on server {i} did not return"))),
            Ok(Some((v, ver, kind))) => {
                let fresh = self.ledger[i].insert((key.to_string(), ver), (v, kind)).is_none();
                self.latest[i].insert(key.to_string(), ver);
                if kind == 0 {
                    self.marks[i].remove(key);
                } else if fresh {
                    let now = self.now();
                    self.marks[i].insert(key.to_string(), (ver, now));
                }
                Ok(())
            }
            Ok(None) => Ok(()),
        }
    }

    /// C06 through the real server loop: an entry the owner marked for deletion (delete, TTL) is
    /// gone from the owner's own state once the grace period and a few gossip rounds have passed
    /// (the loop runs the collection at the start of every round).
    async fn collection_check(&mut self) -> Result<(), Violation> {
        let grace = self.cfg.tomb_grace_ms;
        if grace == 0 {
            return Ok(());
        }
        let now = self.now();
        let interval = self.cfg.interval_ms;
        for i in 0..self.srv.len() {
            if self.srv[i].ended || self.srv[i].handle.is_none() {
                continue;
            }
            let excused = self.excused_until(i);
            if excused == u64::MAX {
                continue;
            }
            let due: Vec<(String, u64)> = self.marks[i].iter().filter(|(_, (_, t))| now >= (*t).max(excused) + grace + 3 * interval + 5).map(|(k, (ver, _))| (k.clone(), *ver)).collect();
            if due.is_empty() {
                continue;
            }
            let h = self.srv[i].handle.as_ref().unwrap();
            let Ok(held) = tokio::time::timeout(
                Duration::from_millis(interval * 10),
                h.with_chitchat(|c| c.self_node_state().key_values_including_deleted().map(|(k, v)| (k.to_string(), v.version, kind_of(&v.status))).collect::<Vec<_>>()),
            )
            .await
            else {
                continue;
            };
            self.net.lock().unwrap().stats.inc("collection_checks");
            self.nontrivial = true;
            for (k, ver) in due {
                if held.iter().any(|(hk, hv, kind)| *hk == k && *hv == ver && *kind != 0) {
                    return Err(viol(
                        self.step,
                        "C06.e2_not_collected",
                        format!("server {i} at {now} ms still holds its own entry {k:?}@{ver}, marked for deletion more than the grace period ({grace} ms) and three gossip rounds ago"),
                    ));
                }
                self.net.lock().unwrap().stats.inc("probe_owner_entry_collected_by_the_server_loop");
            }
        }
        Ok(())
    }

    /// C02 / C03 at an inspection point, through the real server loops (no tombstone GC here).
    async fn check_copies(&mut self) -> Result<(), Violation> {
        if self.cfg.tomb_grace_ms > 0 {
            return Ok(());
        }
        let n = self.srv.len();
        // copies first, owners afterwards: owners only move forward in between
        let mut copies: Vec<Option<Vec<(usize, u64, u64, u64, Vec<(String, String, u64, u8)>)>>> = Vec::new();
        for s in &self.srv {
            if s.ended || s.handle.is_none() {
                copies.push(None);
                continue;
            }
            let h = s.handle.as_ref().unwrap();
            let v = h
                .with_chitchat(|c| {
                    c.node_states()
                        .iter()
                        .filter_map(|(id, ns)| {
                            let j: usize = id.node_id.strip_prefix('s')?.parse().ok()?;
                            let entries = ns.key_values_including_deleted().map(|(k, v)| (k.to_string(), v.value.clone(), v.version, kind_of(&v.status))).collect();
                            Some((j, ns.last_gc_version(), ns.max_version(), u64::from(ns.heartbeat()), entries))
                        })
                        .collect::<Vec<_>>()
                })
                .await;
            copies.push(Some(v));
        }
        let mut owners: Vec<Option<(u64, u64)>> = Vec::new();
        for s in &self.srv {
            if s.ended || s.handle.is_none() {
                owners.push(None);
                continue;
            }
            let h = s.handle.as_ref().unwrap();
            owners.push(Some(h.with_chitchat(|c| (c.self_node_state().max_version(), u64::from(c.self_node_state().heartbeat()))).await));
        }
        for (i, cs) in copies.iter().enumerate() {
            let Some(cs) = cs else { continue };
            for (j, gc, mv, hb, entries) in cs {
                if *j >= n {
                    continue;
                }
                // the initial key-value written by spawn_chitchat
                let init = ("k".to_string(), 1u64);
                for (k, v, ver, kind) in entries {
                    let known = self.ledger[*j].get(&(k.clone(), *ver)).map(|w| &w.0 == v && w.1 == *kind).unwrap_or(false) || ((k.clone(), *ver) == init && v == &format!("v{j}") && *kind == 0);
                    if !known {
                        return Err(viol(self.step, "C03.invented", format!("server {i} holds s{j}:{k:?}@{ver} kind {kind} which s{j} never wrote")));
                    }
                }
                if let Some((omv, ohb)) = owners[*j] {
                    if *mv > omv || *hb > ohb {
                        return Err(viol(self.step, "C03.ahead", format!("server {i} copy of s{j} at (max {mv}, heartbeat {hb}), owner at (max {omv}, heartbeat {ohb})")));
                    }
                }
                for (k, ver) in &self.latest[*j] {
                    if *ver > *mv {
                        continue;
                    }
                    let w = &self.ledger[*j][&(k.clone(), *ver)];
                    let have = entries.iter().find(|e| &e.0 == k);
                    let ok = match have {
                        Some(e) => e.2 == *ver && e.1 == w.0 && e.3 == w.1,
                        None => w.1 != 0 && *ver <= *gc,
                    };
                    if !ok {
                        return Err(viol(self.step, "C02.stale", format!("server {i} copy of s{j} at (gc {gc}, max {mv}): key {k:?} holds {:?}, owner's latest write is @{ver} kind {}", have.map(|e| (e.2, e.3)), w.1)));
                    }
                }
            }
        }
        self.net.lock().unwrap().stats.inc("ledger_checks");
        Ok(())
    }

    /// Some running server's copy of a running member it knows is behind the owner.
    async fn lagging(&mut self) -> String {
        let mut own: Vec<Option<(ChitchatId, u64)>> = Vec::new();
        for s in &self.srv {
            if s.ended || s.handle.is_none() {
                own.push(None);
                continue;
            }
            let h = s.handle.as_ref().unwrap();
            let r = h.with_chitchat(|c| (c.self_chitchat_id().clone(), c.self_node_state().max_version())).await;
            own.push(Some(r));
        }
        for (i, s) in self.srv.iter().enumerate() {
            if s.ended || s.handle.is_none() {
                continue;
            }
            let h = s.handle.as_ref().unwrap();
            let targets: Vec<(ChitchatId, u64)> = own.iter().flatten().cloned().collect();
            let bad = h
                .with_chitchat(|c| {
                    for (id, mv) in &targets {
                        if let Some(ns) = c.node_state(id) {
                            if ns.max_version() != *mv {
                                return Some(format!("copy of {} at max version {}, owner at {}", id.node_id, ns.max_version(), mv));
                            }
                        }
                    }
                    None
                })
                .await;
            if let Some(b) = bad {
                return format!("server {i}: {b}");
            }
        }
        String::new()
    }

    /// After a timeout-based wait the paused clock has moved without `advance_to`: bring the
    /// network clock back in line with tokio's.
    fn resync_clock(&mut self) {}
}

fn s_end(s: &mut Srv) {
    s.ended = true;
}


fn gen_cmds(seed: u64) -> (E2Cfg, Vec<E2Cmd>) {
    let mut r = Rng::new(seed);
    let n = r.range(1, 4) as usize;
    let cfg = E2Cfg {
        n,
        interval_ms: *r.pick(&[100u64, 500, 1000]),
        net_seed: r.next(),
        seeds: (0..n).filter(|_| r.chance(0.5)).collect(),
        dead_grace_ms: *r.pick(&[20_000u64, 3_600_000]),
        dns: Vec::new(),
        raw_udp: false,
        split_addr: false,
        self_in_seeds: false,
        tomb_grace_ms: 0,
    };
    // name resolution runs draw from their own stream, so the other runs keep their commands
    let mut r2 = Rng::new(seed ^ 0x5EED_D45_0000_0001);
    let dns_on = r2.chance(0.3);
    let raw_udp = r2.chance(0.5);
    let mut cfg = cfg;
    let slots_for = |r2: &mut Rng, i: usize| -> Vec<usize> { (0..n + 2).filter(|s| *s != i && r2.chance(0.45)).collect() };
    if dns_on {
        cfg.interval_ms = cfg.interval_ms.max(1000);
        cfg.dns = (0..n).map(|i| if r2.chance(0.75) { Some(slots_for(&mut r2, i)) } else { None }).collect();
    }
    cfg.raw_udp = raw_udp;
    cfg.split_addr = r2.chance(0.4);
    if r2.chance(0.25) {
        cfg.tomb_grace_ms = *r2.pick(&[2 * cfg.interval_ms, 10 * cfg.interval_ms, 30_000]);
    }
    cfg.self_in_seeds = r2.chance(0.4);
    let cfg = cfg;
    let mut cmds = Vec::new();
    let steps = r.range(6, 30);
    let mut terminal_used = 0;
    for _ in 0..steps {
        let i = r.usize_below(n);
        let c = match r.below(20) {
            0..=4 => E2Cmd::Advance { ms: *r.pick(&[1u64, 50, cfg.interval_ms, cfg.interval_ms, 3 * cfg.interval_ms, 10 * cfg.interval_ms]) },
            5 => E2Cmd::Faults { drop_pct: *r.pick(&[0u8, 10, 30]), dup_pct: *r.pick(&[0u8, 10, 30]), send_err_pct: *r.pick(&[0u8, 10, 40, 100]), max_delay_ms: *r.pick(&[1u64, 20, 400]) },
            6 => E2Cmd::Partition { a: i, b: r.usize_below(n) },
            7 => E2Cmd::Heal,
            8 => {
                if r.chance(0.6) {
                    E2Cmd::Write { i, key: format!("w{}", r.below(4)), value: format!("x{}", r.below(1000)) }
                } else {
                    E2Cmd::WriteOp { i, key: format!("w{}", r.below(4)), value: format!("t{}", r.below(1000)), op: r.below(3) as u8 }
                }
            }
            9 | 10 => {
                let bytes: Vec<u8> = match r.below(4) {
                    0 => b"junk".to_vec(),
                    1 => (0..r.range(0, 300)).map(|_| r.next() as u8).collect(),
                    2 => {
                        let mut b = codec::encode(&Msg::BadCluster, BlockPlan::Auto { size: 16 });
                        b[3] = 9;
                        b
                    }
                    _ => {
                        let mut b = codec::encode(&Msg::Syn { digest: vec![], cluster: "c".into() }, BlockPlan::Auto { size: 16 });
                        let cut = r.usize_below(b.len());
                        b.truncate(cut);
                        b
                    }
                };
                E2Cmd::Garbage { to: i, hex: crate::e1::types::hex(&bytes) }
            }
            11 | 12 => E2Cmd::Probe { to: i },
            13 => E2Cmd::FailNextSends { i, count: r.range(1, 12) as u32 },
            14 => E2Cmd::StallNextSend { i, ms: *r.pick(&[10u64, 1000, 5000]) },
            15 => E2Cmd::HoldLock { i, ms: *r.pick(&[1u64, 100, 3000]) },
            16 => {
                if r.chance(0.5) {
                    E2Cmd::GossipCmd { i, j: r.usize_below(n) }
                } else {
                    E2Cmd::RoundCheck { i }
                }
            }
            17 if terminal_used < 2 => {
                terminal_used += 1;
                match r.below(3) {
                    0 => E2Cmd::FatalRecv { i },
                    1 => E2Cmd::PanicCallback { i },
                    _ => E2Cmd::Shutdown { i },
                }
            }
            18 => E2Cmd::RoundCheck { i },
            _ => E2Cmd::Inspect,
        };
        let c = if dns_on && r2.chance(0.3) {
            let i = r2.usize_below(n);
            match r2.below(10) {
                0..=3 => E2Cmd::Dns { i, slots: if r2.chance(0.15) { None } else { Some(slots_for(&mut r2, i)) } },
                4..=6 => E2Cmd::Advance { ms: *r2.pick(&[20_000u64, 61_000, 125_000, 301_000, 301_000]) },
                _ => E2Cmd::SeedCheck { i },
            }
        } else if r2.chance(0.05) {
            let i = r2.usize_below(n);
            if r2.chance(0.35) && terminal_used < 2 {
                terminal_used += 1;
                if r2.chance(0.5) {
                    E2Cmd::FloodShutdown { i, n: *r2.pick(&[3u32, 200, 400]) }
                } else {
                    E2Cmd::BurstShutdown { i, n: *r2.pick(&[3u32, 40, 400]) }
                }
            } else {
                E2Cmd::FloodRound { i, n: *r2.pick(&[3u32, 200, 400]) }
            }
        } else if r2.chance(0.04) {
            E2Cmd::BigProbe { to: r2.usize_below(n), len: *r2.pick(&[65_507usize, 65_507, 65_506, 30_000]) }
        } else if raw_udp && r2.chance(0.08) {
            E2Cmd::TransientRecv { i: r2.usize_below(n), kind: r2.below(3) as u8 }
        } else {
            c
        };
        cmds.push(c);
        if cfg.tomb_grace_ms > 0 && r2.chance(0.15) {
            // a deletion or TTL mark, the grace period, a few rounds, an inspection
            let i = r2.usize_below(n);
            let key = if r2.chance(0.5) { "k".to_string() } else { format!("w{}", r2.below(4)) };
            cmds.push(E2Cmd::WriteOp { i, key, value: format!("t{}", r2.below(1000)), op: r2.below(3) as u8 });
            cmds.push(E2Cmd::Advance { ms: cfg.tomb_grace_ms + 4 * cfg.interval_ms });
            cmds.push(E2Cmd::Inspect);
        }
    }
    if dns_on {
        cmds.push(E2Cmd::Advance { ms: *r2.pick(&[61_000u64, 301_000, 301_000, 361_000]) });
        for i in 0..n {
            cmds.push(E2Cmd::SeedCheck { i });
        }
    }
    cmds.push(E2Cmd::Advance { ms: 2 * cfg.interval_ms });
    cmds.push(E2Cmd::Inspect);
    if r.chance(0.5) {
        cmds.push(E2Cmd::Quiesce { rounds: 200 });
        cmds.push(E2Cmd::Inspect);
    }
    (cfg, cmds)
}

fn execute(cfg: &E2Cfg, cmds: &[E2Cmd], keep_log: bool, prop: &str) -> (Outcome, Vec<String>) {
    let mut sb = [0u8; 32];
    sb[..8].copy_from_slice(&cfg.net_seed.to_le_bytes());
    let rt = tokio::runtime::Builder::new_current_thread()
        .enable_time()
        .start_paused(true)
        .rng_seed(tokio::runtime::RngSeed::from_bytes(&sb))
        .build()
        .unwrap();
    // panics inside server tasks are expected (injected): keep the hook silent on this thread
    let out = crate::common::guarded(|| {
        rt.block_on(async {
            let mut run = Run::new(cfg.clone(), keep_log).await;
            let mut violation: Option<Violation> = None;
            for c in cmds {
                if let Err(v) = run.apply(c).await {
                    violation = Some(v);
                    break;
                }
            }
            for s in &run.srv {
                if let Some(h) = &s.handle {
                    h.abort();
                }
            }
            let net = run.net.lock().unwrap();
            let mut o = Outcome { trace: net.trace.0, stats: net.stats.clone(), steps: run.step as u64, sim_ms: net.now(), nontrivial: run.nontrivial, ..Default::default() };
            // what a server hands to its socket is also C08's business (every emitted message
            // decodes, consuming exactly all of its bytes)
            if prop == "C08" {
                if let Some(v) = violation.as_mut() {
                    if v.code == "C19.garbled_send" {
                        v.code = "C08.emitted_bytes".into();
                        v.property = "C08".into();
                    }
                }
            }
            match violation {
                Some(v) if v.property == prop => o.violation = Some(v),
                Some(v) => o.foreign_abort = Some(format!("{}: {}", v.code, v.detail)),
                None => {}
            }
            (o, run.log.clone())
        })
    });
    match out {
        Ok(x) => x,
        Err(p) => {
            let mut o = Outcome::default();
            o.foreign_abort = Some(format!("harness panic: {p}"));
            (o, vec![])
        }
    }
}

pub struct E2;

impl Engine for E2 {
    fn name(&self) -> &'static str {
        "E2"
    }
    fn generate(&self, seed: u64, prop: &str) -> RunRecord {
        let (cfg, cmds) = gen_cmds(seed);
        crate::abort::tee_cfg("E2", "server", &serde_json::to_value(&cfg).unwrap());
        crate::abort::tee_cmds(&cmds);
        let (outcome, _) = execute(&cfg, &cmds, false, prop);
        RunRecord { engine: "E2", profile: "server".into(), cfg: serde_json::to_value(&cfg).unwrap(), cmds: cmds.iter().map(|c| serde_json::to_value(c).unwrap()).collect(), outcome }
    }
    fn replay(&self, cfg: &Value, cmds: &[Value], prop: &str, log: bool) -> (Outcome, Vec<String>) {
        let cfg: E2Cfg = serde_json::from_value(cfg.clone()).expect("E2 config");
        let cmds: Vec<E2Cmd> = cmds.iter().filter_map(|c| serde_json::from_value(c.clone()).ok()).collect();
        execute(&cfg, &cmds, log, prop)
    }
    fn real_components(&self) -> Vec<&'static str> {
        vec![
            "chitchat/src/server.rs (spawn_chitchat, Server::run select loop, gossip_multiple, handle_message, shutdown, termination watcher, peer selection with its own generator)",
            "chitchat/src/lib.rs and everything below it (as E1)",
            "tokio current-thread scheduler with a seeded rng (select! branch order) and paused clock",
        ]
    }
    fn stub_components(&self) -> Vec<&'static str> {
        vec!["the recv_from/send_to/bind system calls under chitchat/src/transport/udp.rs (scripted through the verif seam in half of the runs; in the other half the whole file is replaced by a scripted Transport/Socket whose decode-or-skip mirrors UdpSocket::receive_one); transport/channel.rs", "the system resolver (seed host names resolve through a scripted table behind the verif hook; dns_refresh_loop itself runs)"]
    }
}
