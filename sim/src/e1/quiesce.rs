//! Atomic handshakes and the loss-free suffix (C01).

use std::collections::HashSet;
use std::time::Duration;

use super::world::*;
use crate::codec::Id;
use crate::common::Violation;

impl World {
    fn scheduled(&self, p: usize) -> HashSet<Id> {
        let _g = self.rt.enter();
        self.nodes[p].as_ref().unwrap().chit.scheduled_for_deletion_nodes().map(Id::from_real).collect()
    }

    /// Members on which one of a, b is ahead of the other and which both advertise.
    fn lagging(&self, a: usize, b: usize) -> Vec<Id> {
        let mut out = Vec::new();
        if self.cluster_now[a] != self.cluster_now[b] {
            return out;
        }
        let (sa, sb) = (self.scheduled(a), self.scheduled(b));
        let (na, nb) = (self.nodes[a].as_ref().unwrap(), self.nodes[b].as_ref().unwrap());
        let ids: HashSet<&Id> = na.view.keys().chain(nb.view.keys()).collect();
        for id in ids {
            if sa.contains(id) || sb.contains(id) || na.removed_hb.contains_key(id) || nb.removed_hb.contains_key(id) {
                continue;
            }
            let ma = na.view.get(id).map(|c| c.mv).unwrap_or(0);
            let mb = nb.view.get(id).map(|c| c.mv).unwrap_or(0);
            if ma != mb {
                out.push(id.clone());
            }
        }
        out
    }

    /// KF-2 signature: a member that one of a, b still advertises (holds it, has not scheduled it
    /// for deletion) while the other has stopped advertising it (scheduled for deletion, or removed
    /// and remembered). The advertiser sends it from version 0 with the "unknown member" priority
    /// at every handshake; the other side already has it and refuses it, and its bytes can use up
    /// the datagram that the lagging member needed.
    fn hog(&self, a: usize, b: usize) -> Option<Id> {
        let (sa, sb) = (self.scheduled(a), self.scheduled(b));
        let (na, nb) = (self.nodes[a].as_ref().unwrap(), self.nodes[b].as_ref().unwrap());
        for (s_view, s_sched, r_sched, r_removed) in [(&na.view, &sa, &sb, &nb.removed_hb), (&nb.view, &sb, &sa, &na.removed_hb)] {
            for id in s_view.keys() {
                if !s_sched.contains(id) && (r_sched.contains(id) || r_removed.contains_key(id)) {
                    return Some(id.clone());
                }
            }
        }
        None
    }

    fn known_kf2(&mut self, what: String) {
        self.stats.inc("known_KF2_hits");
        if self.known_hits.len() < 4 {
            self.known_hits.push(format!("KF-2 {what}"));
        }
    }

    fn rank(&self, ps: &[usize]) -> Vec<(usize, Id, (u64, u64))> {
        let mut v = Vec::new();
        for &p in ps {
            if let Some(n) = self.nodes[p].as_ref() {
                for (id, c) in &n.view {
                    v.push((p, id.clone(), (c.gc, c.mv)));
                }
            }
        }
        v
    }

    fn progressed(before: &[(usize, Id, (u64, u64))], after: &[(usize, Id, (u64, u64))]) -> bool {
        for (p, id, f) in after {
            match before.iter().find(|(bp, bid, _)| bp == p && bid == id) {
                Some((_, _, bf)) => {
                    if f > bf {
                        return true;
                    }
                }
                None => {
                    if *f > (0, 0) {
                        return true;
                    }
                }
            }
        }
        false
    }

    /// SYN a->b, SYN-ACK, ACK back to back. Returns true when all three were delivered.
    pub fn handshake(&mut self, a: usize, b: usize) -> Result<bool, Violation> {
        if !self.running(a) || !self.running(b) || a == b {
            return Ok(false);
        }
        let lag = if self.on("C01") { self.lagging(a, b) } else { Vec::new() };
        let hog = if lag.is_empty() { None } else { self.hog(a, b) };
        let before = self.rank(&[a, b]);
        let seq0 = self.flight_seq;
        if !self.syn(a, b)? {
            return Ok(false);
        }
        let mut delivered = 0;
        let mut carried: Vec<std::sync::Arc<crate::codec::Msg>> = Vec::new();
        for _ in 0..3 {
            let Some(fi) = self.flights.iter().position(|f| f.seq > seq0 && ((f.from == a && f.to == b) || (f.from == b && f.to == a))) else { break };
            carried.push(self.flights[fi].msg.clone());
            self.deliver_idx(fi, false)?;
            delivered += 1;
        }
        let complete = delivered == 3;
        self.stats.inc("handshakes");
        if complete && !lag.is_empty() && self.on("C01") {
            self.nontrivial.insert("C01".into());
            self.stats.inc("handshakes_with_lag");
            let after = self.rank(&[a, b]);
            if !Self::progressed(&before, &after) {
                // KF-2 is starvation: the lagging member's data did not make it into the datagrams.
                // If a non-empty delta for a lagging member was delivered and still nothing
                // advanced, that is not KF-2.
                let lag_delta_delivered = carried.iter().any(|m| {
                    m.ops().and_then(|ops| crate::codec::group_ops(ops)).map(|ds| ds.iter().any(|d| lag.contains(&d.id) && (!d.kvs.is_empty() || d.has_setmax))).unwrap_or(false)
                });
                if let (Some(h), false) = (hog, lag_delta_delivered) {
                    self.hog_seen = true;
                    self.known_kf2(format!("complete handshake n{a}<->n{b} advanced no copy although they differ on {}: {} is still sent by one side and no longer advertised by the other", lag[0].short(), h.short()));
                    return Ok(complete);
                }
                return Err(self.viol(
                    "C01",
                    "C01.handshake_no_progress",
                    format!("complete handshake n{a}<->n{b} advanced no copy although they differ on {}", lag.iter().map(|i| i.short()).collect::<Vec<_>>().join(",")),
                ));
            }
        }
        Ok(complete)
    }

    fn cluster_running(&self) -> Vec<usize> {
        (0..self.cfg.n).filter(|p| self.running(*p)).collect()
    }

    pub fn quiesce_round(&mut self) -> Result<(), Violation> {
        if self.quiesce_rounds == 0 {
            // the finite fault prefix ends here: whatever is still in flight is lost
            self.stats.add("fault_lost_at_quiesce", self.flights.len() as u64);
            self.flights.clear();
            self.groups = None;
            let entries: u64 = self.incs.iter().map(|i| i.latest.len() as u64).sum();
            self.quiesce_budget = 12 + 2 * entries;
        }
        self.quiesce_rounds += 1;
        let ms = self.cfg.gossip_interval_ms;
        self.rt.block_on(async { tokio::time::advance(Duration::from_millis(ms)).await });
        self.now_ms += ms;
        let running = self.cluster_running();
        let before = self.rank(&running);
        let mut lag_at_start = false;
        let mut hog_in_round = false;
        if self.on("C01") {
            for &a in &running {
                for &b in &running {
                    if a < b && self.cluster_now[a] == self.cluster_now[b] {
                        if !self.lagging(a, b).is_empty() {
                            lag_at_start = true;
                        }
                        if self.hog(a, b).is_some() {
                            hog_in_round = true;
                        }
                    }
                }
            }
        }
        for &a in &running {
            self.apply_inner_heartbeat_gc(a)?;
            for &b in &running {
                if a != b && self.cluster_now[a] == self.cluster_now[b] {
                    self.handshake(a, b)?;
                }
            }
            self.evaluate(a)?;
        }
        if self.on("C01") {
            let mut lag_left = false;
            for &a in &running {
                for &b in &running {
                    if a < b && !self.lagging(a, b).is_empty() {
                        lag_left = true;
                    }
                }
            }
            for &a in &running {
                for &b in &running {
                    if a < b && self.cluster_now[a] == self.cluster_now[b] && self.hog(a, b).is_some() {
                        hog_in_round = true;
                    }
                }
            }
            if hog_in_round {
                self.hog_seen = true;
            }
            if lag_left && lag_at_start {
                let after = self.rank(&running);
                if !Self::progressed(&before, &after) {
                    if hog_in_round {
                        self.known_kf2(format!("quiesce round {} ended with a lag and no copy advanced while a member was sent by one side and no longer advertised by the other", self.quiesce_rounds));
                        return Ok(());
                    }
                    return Err(self.viol("C01", "C01.idle_round", format!("quiesce round {} ended with a lag and no copy advanced", self.quiesce_rounds)));
                }
            }
        }
        Ok(())
    }

    fn apply_inner_heartbeat_gc(&mut self, p: usize) -> Result<(), Violation> {
        self.apply_no_count(&super::types::Cmd::Heartbeat { p })?;
        self.apply_no_count(&super::types::Cmd::Gc { p })
    }

    fn apply_no_count(&mut self, cmd: &super::types::Cmd) -> Result<(), Violation> {
        let step = self.step;
        let r = self.apply(cmd);
        self.step = step;
        r
    }

    /// Converged: every running node's copy of every member whose owner runs is at the owner's max
    /// version; for crashed owners (only when nobody can have stopped advertising them) all
    /// surviving copies agree on the highest surviving max version.
    pub fn converged(&self) -> Result<(), String> {
        let running = self.cluster_running();
        let long_grace = self.cfg.dead_grace_ms.iter().all(|g| *g / 2 > self.now_ms + 1_000_000);
        for inc in &self.incs {
            let cl = inc.cluster;
            let observers: Vec<usize> = running.iter().copied().filter(|p| self.cluster_now[*p] == cl).collect();
            let mvs: Vec<(usize, u64)> = observers.iter().map(|p| (*p, self.nodes[*p].as_ref().unwrap().view.get(&inc.id).map(|c| c.mv).unwrap_or(0))).collect();
            if inc.running {
                for (p, mv) in &mvs {
                    if *mv != inc.max_version {
                        return Err(format!("n{p} copy of {} at max version {mv}, owner at {}", inc.id.short(), inc.max_version));
                    }
                }
            } else if long_grace {
                let top = mvs.iter().map(|x| x.1).max().unwrap_or(0);
                for (p, mv) in &mvs {
                    if *mv != top {
                        return Err(format!("n{p} copy of crashed {} at {mv}, another survivor has {top}", inc.id.short()));
                    }
                }
            }
        }
        Ok(())
    }

    pub fn expect_converged(&mut self) -> Result<(), Violation> {
        if !self.on("C01") || self.quiesce_rounds == 0 {
            return Ok(());
        }
        self.stats.max("max_quiesce_rounds", self.quiesce_rounds);
        if let Err(e) = self.converged() {
            if self.quiesce_rounds >= self.quiesce_budget {
                if self.hog_seen {
                    self.known_kf2(format!("not converged after {} loss-free all-pairs rounds (budget {}): {e}", self.quiesce_rounds, self.quiesce_budget));
                    return Ok(());
                }
                return Err(self.viol("C01", "C01.not_converged", format!("after {} loss-free all-pairs rounds (budget {}): {e}", self.quiesce_rounds, self.quiesce_budget)));
            }
        } else {
            self.nontrivial.insert("C01".into());
        }
        Ok(())
    }
}
