//! Seeded generator for E1 runs: per-run swarm configuration and command choice.

use super::types::*;
use super::world::*;
use crate::common::{ValSpec, Violation};
use crate::rng::Rng;

#[derive(Clone, Copy, Debug, PartialEq, Eq)]
pub enum Profile {
    General,
    SmallVersions,
    SizePressure,
    DeathHeavy,
    TwoClusters,
    Hostile,
    Select,
    Listeners,
}

impl Profile {
    pub fn name(&self) -> &'static str {
        match self {
            Profile::General => "general",
            Profile::SmallVersions => "small_versions",
            Profile::SizePressure => "size_pressure",
            Profile::DeathHeavy => "death_heavy",
            Profile::TwoClusters => "two_clusters",
            Profile::Hostile => "hostile",
            Profile::Select => "select",
            Profile::Listeners => "listeners",
        }
    }
}

pub struct Knobs {
    pub profile: Profile,
    pub keys: Vec<String>,
    pub max_val: u32,
    pub big: bool,
    pub drop_p: f64,
    pub dup_p: f64,
    pub steps: usize,
    pub w_write: u32,
    pub w_tick: u32,
    pub w_syn: u32,
    pub w_deliver: u32,
    pub w_gc: u32,
    pub w_advance: u32,
    pub w_eval: u32,
    pub w_crash: u32,
    pub w_join: u32,
    pub w_catchup: u32,
    pub w_partition: u32,
    pub w_sub: u32,
    pub w_handshake: u32,
    pub w_round: u32,
    pub w_inject: u32,
    pub real_selection: bool,
    pub quiesce: bool,
    pub max_restarts: u32,
    pub initial_running: usize,
    pub prefixes: Vec<String>,
    pub writers: Vec<usize>,
    /// subscriptions whose callback panics on local writes (not under C15, whose oracle counts calls)
    pub allow_panicky: bool,
    /// catch-ups with an inconsistent supplied state (C13 runs only: its oracle reads the node's own
    /// copies and does not care how they came about)
    pub odd_catchup: bool,
}

fn id_string(r: &mut Rng, len: usize, p: usize) -> String {
    let mut s = format!("n{p}");
    while s.len() < len {
        s.push((b'a' + r.below(26) as u8) as char);
    }
    s
}

/// Draws the configuration and knobs of one run.
pub fn draw(r: &mut Rng, profile: Profile, enabled: &[String]) -> (E1Config, Knobs) {
    let mut n = match profile {
        Profile::SmallVersions => r.range(2, 3) as usize,
        Profile::SizePressure => r.range(2, 4) as usize,
        Profile::TwoClusters => r.range(2, 6) as usize,
        Profile::Select => r.range(2, 7) as usize,
        Profile::Listeners => r.range(2, 3) as usize,
        _ => r.range(2, 5) as usize,
    };
    let mut cluster_of = vec![0usize; n];
    let mut cluster_ids = vec![r.pick(&["c", "", "default-cluster", "Cluster"]).to_string()];
    if profile == Profile::TwoClusters {
        // ids that a sloppy comparison would take for equal: case, prefix, surrounding whitespace,
        // trailing NUL, composed and decomposed accents, empty and blank
        let pairs: &[(&str, &str)] = &[
            ("a", "A"),
            ("", "a"),
            ("ab", "a"),
            ("a", "ab"),
            ("x", "y"),
            ("cluster", "cluster2"),
            ("é", "e"),
            ("blue", "blue\n"),
            (" a", "a"),
            ("a ", "a"),
            ("", " "),
            ("a\t", "a"),
            ("a\0", "a"),
            ("\u{e9}", "e\u{301}"),
            ("a\r\n", "a"),
            ("straße", "strasse"),
        ];
        let (c0, c1) = *r.pick(pairs);
        cluster_ids = vec![c0.to_string(), c1.to_string()];
        n = n.max(2);
        let n0 = r.range(1, (n as u64 - 1).min(3)) as usize;
        for (p, c) in cluster_of.iter_mut().enumerate() {
            *c = if p < n0 { 0 } else { 1 };
        }
    }
    let max_restarts = if matches!(profile, Profile::SizePressure) { 0 } else { 2 };
    // node ids: short by default, long under size pressure
    let mut node_ids: Vec<String> = (0..n).map(|p| format!("node-{p}")).collect();
    // positions allowed to write (under tight size pressure only short-id nodes own data, so that
    // "digest + node op + one key-value fit a datagram" keeps holding)
    let mut writers: Vec<usize> = (0..n).collect();
    // scoped link-local addresses only where the wire oracles classify their known finding (KF-4)
    // (kind 4, scoped link-local addresses, is not drawn here: its known finding KF-4 is reproduced by
    // E3-wire, where it does not contaminate the cluster-level oracles)
    let addr_kind = *r.pick(&[0u8, 0, 0, 0, 0, 0, 1, 2, 3]);
    let ipv6 = r.chance(0.3) || addr_kind == 1 || addr_kind == 2 || addr_kind == 4;
    let addr_bytes = if ipv6 { 19 } else { 7 };
    if profile == Profile::SizePressure {
        if r.chance(0.6) {
            // tight: position 0 has a short id, the others inflate the digest towards the limit
            let target_digest = *r.pick(&[20_000usize, 50_000, 60_000, 64_000, 65_000, 65_200, 65_300, 65_380]);
            let short = *r.pick(&[2usize, 6, 40, 200]);
            let fixed = 2 + n * (2 + 8 + addr_bytes + 24);
            let rest = target_digest.saturating_sub(fixed + short);
            let per = (rest / (n - 1)).clamp(2, 65_000);
            node_ids = (0..n).map(|p| if p == 0 { id_string(r, short, p) } else { id_string(r, per, p) }).collect();
            writers = vec![0];
        } else {
            let target_digest = *r.pick(&[2_000usize, 10_000, 30_000, 45_000]);
            let per = (target_digest / n).saturating_sub(2 + 8 + addr_bytes + 24).clamp(2, 16_000);
            node_ids = (0..n).map(|p| id_string(r, per, p)).collect();
        }
    } else if r.chance(0.1) {
        let len = *r.pick(&[1usize, 2, 255, 256, 300]);
        node_ids = (0..n).map(|p| id_string(r, len, p)).collect();
    }
    // two members that share node id and generation and differ by address only (a node moved to
    // another address under a static generation, or two nodes configured alike): still two members
    if n >= 2 && profile != Profile::SizePressure && r.chance(0.04) {
        node_ids[1] = node_ids[0].clone();
    }
    let id_cost = |s: &String| s.len() + 2 + 8 + addr_bytes + 24;
    // keep the property's assumption true: own digest + a writer's node op + one key-value fit
    {
        let digest: usize = 2 + node_ids.iter().map(id_cost).sum::<usize>();
        let node_op = writers.iter().map(|p| node_ids[*p].len() + 2 + 8 + addr_bytes + 17).max().unwrap_or(0);
        let need = node_op + 64 + 100;
        let have = 65_503usize.saturating_sub(digest);
        if need > have {
            let deficit = need - have;
            let longest = (0..n).max_by_key(|p| node_ids[*p].len()).unwrap();
            let new_len = node_ids[longest].len().saturating_sub(deficit).max(2);
            node_ids[longest].truncate(new_len);
        }
    }
    let max_members_extra = max_restarts as usize * node_ids.iter().map(id_cost).max().unwrap_or(0);
    let max_digest = 2 + node_ids.iter().map(id_cost).sum::<usize>() + max_members_extra;
    assert!(max_digest <= 65_403, "generator bug: digest bound {max_digest}");
    let writer_node_op = writers.iter().map(|p| node_ids[*p].len() + 2 + 8 + addr_bytes + 17).max().unwrap_or(0);
    let room = (65_507usize - 4 - max_digest).saturating_sub(writer_node_op + 64);
    let big = matches!(profile, Profile::SizePressure) || (matches!(profile, Profile::General | Profile::DeathHeavy) && r.chance(0.3));
    // one key-value op costs 14 bytes plus key and value; keys are at most 8 bytes here
    let max_val = if big { room.saturating_sub(24).min(60_000) as u32 } else { room.saturating_sub(24).min(12) as u32 };
    let skew = |r: &mut Rng, base: u64| -> Vec<u64> {
        let skewed = r.chance(0.3);
        (0..n).map(|_| if skewed { base * r.range(80, 125) / 100 } else { base }).collect()
    };
    let grace = *r.pick(&[5_000u64, 10_000, 20_000, 60_000]);
    let dead_grace = match profile {
        Profile::DeathHeavy => *r.pick(&[20_000u64, 30_000, 60_000]),
        Profile::Hostile | Profile::SmallVersions | Profile::Listeners => 100_000_000,
        _ => *r.pick(&[20_000u64, 60_000, 3_600_000, 100_000_000, 100_000_000]),
    };
    let seeds: Vec<usize> = match profile {
        Profile::Select => (0..n).filter(|_| r.chance(0.4)).collect(),
        Profile::TwoClusters => (0..n).filter(|_| r.chance(0.5)).collect(),
        _ => (0..n).filter(|_| r.chance(0.2)).collect(),
    };
    let cfg = E1Config {
        n,
        cluster_of,
        cluster_ids,
        node_ids,
        ipv6,
        addr_kind,
        grace_ms: skew(r, grace),
        dead_grace_ms: skew(r, dead_grace),
        phi: *r.pick(&[2.0, 4.0, 8.0]),
        window: *r.pick(&[1usize, 3, 10, 1000]),
        max_interval_ms: skew(r, *r.clone().pick(&[5_000u64, 10_000])),
        initial_interval_ms: skew(r, *r.clone().pick(&[1_000u64, 5_000])),
        gossip_interval_ms: 1_000,
        predicate: r.chance(0.6),
        shuffle_seed: r.next(),
        hostile: profile == Profile::Hostile,
        enabled: enabled.to_vec(),
        seeds,
    };
    let keys: Vec<String> = if profile == Profile::SmallVersions {
        vec!["a".into(), "b".into(), "svc".into()]
    } else if profile == Profile::Listeners {
        let alphabet = ['a', 'b', 'é', '\u{1F600}'];
        let mut ks = vec![String::new()];
        for _ in 0..10 {
            let len = r.range(0, 3);
            ks.push((0..len).map(|_| *r.pick(&alphabet)).collect());
        }
        ks
    } else if big {
        (0..r.range(4, 20)).map(|i| format!("k{i}")).chain(["svc".to_string(), String::new()]).collect()
    } else {
        let all = ["a", "b", "ab", "svc", "", "c", "abc", "é", "éa", "\u{1F600}k", "svc2"];
        let k = r.range(4, all.len() as u64) as usize;
        let mut v: Vec<String> = all.iter().map(|s| s.to_string()).collect();
        r.shuffle(&mut v);
        v.truncate(k);
        if !v.contains(&"svc".to_string()) {
            v.push("svc".into());
        }
        v
    };
    let prefixes: Vec<String> = {
        let mut ps: Vec<String> = vec![String::new()];
        for k in &keys {
            let chars: Vec<char> = k.chars().collect();
            for l in 0..=chars.len() {
                ps.push(chars[..l].iter().collect());
            }
        }
        ps.push("zz".into());
        ps.sort();
        ps.dedup();
        ps
    };
    let mut k = Knobs {
        profile,
        keys,
        max_val,
        big,
        drop_p: *r.pick(&[0.0, 0.05, 0.15, 0.35]),
        dup_p: *r.pick(&[0.0, 0.05, 0.15, 0.3]),
        steps: r.range(30, 260) as usize,
        w_write: 20,
        w_tick: 8,
        w_syn: 8,
        w_deliver: 36,
        w_gc: 6,
        w_advance: 7,
        w_eval: 4,
        w_crash: 1,
        w_join: 2,
        w_catchup: 1,
        w_partition: 1,
        w_sub: 1,
        w_handshake: 3,
        w_round: 3,
        w_inject: 0,
        real_selection: r.chance(0.5),
        quiesce: enabled.iter().any(|e| e == "C01") || r.chance(0.2),
        max_restarts,
        initial_running: r.range(1, n as u64) as usize,
        prefixes,
        writers,
        allow_panicky: !enabled.iter().any(|e| e == "C15"),
        odd_catchup: enabled.len() == 1 && enabled[0] == "C13",
    };
    // swarm: each run scales its command mix, sometimes switching a kind off entirely
    {
        let mut sc = |w: &mut u32, may_disable: bool| {
            let f = *r.pick(&[0u32, 1, 2, 2, 2, 2, 4, 6]);
            if f == 0 && !may_disable {
                return;
            }
            *w = *w * f / 2;
        };
        sc(&mut k.w_write, false);
        sc(&mut k.w_tick, true);
        sc(&mut k.w_syn, true);
        sc(&mut k.w_deliver, false);
        sc(&mut k.w_gc, true);
        sc(&mut k.w_advance, false);
        sc(&mut k.w_eval, true);
        sc(&mut k.w_crash, true);
        sc(&mut k.w_join, true);
        sc(&mut k.w_catchup, true);
        sc(&mut k.w_partition, true);
        sc(&mut k.w_sub, true);
        sc(&mut k.w_handshake, true);
        sc(&mut k.w_round, true);
        if k.w_tick + k.w_syn + k.w_handshake + k.w_round == 0 {
            k.w_syn = 8;
        }
    }
    if enabled.iter().any(|e| e == "C18") {
        k.w_catchup = 12;
    }
    if enabled.iter().any(|e| e == "C17") {
        k.real_selection = true;
    }
    match profile {
        Profile::SmallVersions => {
            k.steps = r.range(20, 120) as usize;
            k.w_gc = 14;
            k.w_advance = 12;
            k.w_write = 16;
            k.w_crash = 0;
            k.w_partition = 0;
            k.w_handshake = 8;
            k.initial_running = n;
        }
        Profile::DeathHeavy => {
            k.w_crash = 3;
            k.w_partition = 3;
            k.w_round = 12;
            k.w_eval = 8;
            k.w_advance = 10;
            k.initial_running = n;
        }
        Profile::TwoClusters => {
            k.w_syn = 20;
            k.w_catchup = 0;
            k.initial_running = n;
            k.quiesce = false;
        }
        Profile::Hostile => {
            k.w_inject = 25;
            k.w_crash = 0;
            k.quiesce = false;
            k.initial_running = n;
        }
        Profile::Select => {
            k.real_selection = true;
            k.w_tick = 25;
            k.w_round = 10;
            k.w_crash = 3;
            k.w_partition = 3;
            k.initial_running = n;
        }
        Profile::Listeners => {
            k.w_sub = 12;
            k.w_write = 30;
            k.w_crash = 0;
            k.initial_running = n;
            k.quiesce = false;
        }
        Profile::SizePressure => {
            k.w_write = 30;
            k.w_crash = 0;
            k.w_handshake = 10;
            k.initial_running = n;
        }
        Profile::General => {}
    }
    (cfg, k)
}

pub struct Gen {
    pub r: Rng,
    pub k: Knobs,
    pub restarts: u32,
    pub val_ctr: u64,
    pub captured: Vec<Vec<u8>>,
}

impl Gen {
    fn pick_running(&mut self, w: &World) -> Option<usize> {
        let v: Vec<usize> = (0..w.cfg.n).filter(|p| w.running(*p)).collect();
        if v.is_empty() {
            None
        } else {
            Some(*self.r.pick(&v))
        }
    }

    fn value(&mut self) -> ValSpec {
        self.val_ctr += 1;
        let max = self.k.max_val as u64;
        let len = if self.k.big && self.r.chance(0.45) {
            match self.r.below(8) {
                0 => 255,
                1 => 256,
                2 => 16_383,
                3 => 16_384,
                4 => 16_385,
                5 => max,
                _ => self.r.range(300, max.max(300)),
            }
            .min(max)
        } else {
            match self.r.below(6) {
                0 => 0,
                1 => 1,
                _ => self.r.range(2, 12),
            }
            .min(max)
        };
        let class = if self.k.big { self.r.below(4) as u8 } else { 2 };
        ValSpec { class, len: len as u32, seed: (self.r.next() << 20) | self.val_ctr }
    }

    fn advance(&mut self, w: &World) -> Cmd {
        let p = self.r.usize_below(w.cfg.n);
        let g = w.cfg.grace_ms[p];
        let d = w.cfg.dead_grace_ms[p];
        let thr = (w.cfg.phi * w.cfg.max_interval_ms[p].max(w.cfg.initial_interval_ms[p]) as f64) as u64;
        let choices = [1u64, 100, 300, 1_000, 1_000, 1_000, 2_000, 5_000, g / 2, g - 1, g, g + 1, 3 * g, d / 2, d / 2 + 1, d / 2 + 3, d - 1, d, d + 1, thr, thr + 1];
        let ms = (*self.r.pick(&choices)).clamp(1, 200_000);
        Cmd::Advance { ms }
    }

    /// Chooses the next command by looking at the world (read-only).
    pub fn next(&mut self, w: &World) -> Cmd {
        let k = &self.k;
        let weights = [
            k.w_write, k.w_tick, k.w_syn, k.w_deliver, k.w_gc, k.w_advance, k.w_eval, k.w_crash, k.w_join, k.w_catchup, k.w_partition, k.w_sub, k.w_handshake,
            k.w_round, k.w_inject,
        ];
        let total: u32 = weights.iter().sum();
        let mut x = self.r.below(total as u64) as u32;
        let mut which = 0;
        for (i, wt) in weights.iter().enumerate() {
            if x < *wt {
                which = i;
                break;
            }
            x -= wt;
        }
        let n = w.cfg.n;
        match which {
            0 => {
                let ws: Vec<usize> = self.k.writers.iter().copied().filter(|p| w.running(*p)).collect();
                if ws.is_empty() {
                    return self.advance(w);
                }
                let p = *self.r.pick(&ws);
                let key = self.r.pick(&self.k.keys).clone();
                let op = *self.r.pick(&[WriteOp::Set, WriteOp::Set, WriteOp::Set, WriteOp::SetTtl, WriteOp::Delete, WriteOp::Delete, WriteOp::DeleteTtl]);
                let mut val = self.value();
                // now and then re-set the current value (no-op path)
                if self.r.chance(0.08) {
                    val = ValSpec { class: 2, len: 1, seed: 7 };
                }
                Cmd::Write { p, op, key, val }
            }
            1 => {
                let Some(p) = self.pick_running(w) else { return Cmd::Join { p: 0 } };
                if self.k.real_selection {
                    Cmd::TickSelect { p, rng_seed: self.r.next(), mode: *self.r.pick(&[0u8, 0, 0, 0, 1, 2, 3, 4]) }
                } else {
                    let peers: Vec<usize> = (0..n).filter(|q| *q != p && self.r.chance(0.6)).collect();
                    Cmd::Tick { p, peers }
                }
            }
            2 => {
                let Some(a) = self.pick_running(w) else { return Cmd::Join { p: 0 } };
                let b = self.r.usize_below(n);
                Cmd::Syn { a, b }
            }
            3 => {
                if w.flights.is_empty() {
                    return self.advance(w);
                }
                // bias towards the newest datagrams, but any in-flight datagram can be chosen
                let fi = if self.r.chance(0.5) { w.flights.len() - 1 - self.r.usize_below(w.flights.len().min(3)) } else { self.r.usize_below(w.flights.len()) };
                let f = &w.flights[fi];
                let link = w.link(f.from, f.to);
                let idx = link.iter().position(|i| *i == fi).unwrap();
                if self.r.chance(self.k.drop_p) {
                    Cmd::Drop { from: f.from, to: f.to, idx }
                } else {
                    Cmd::Deliver { from: f.from, to: f.to, idx, keep: self.r.chance(self.k.dup_p) }
                }
            }
            4 => match self.pick_running(w) {
                Some(p) => Cmd::Gc { p },
                None => Cmd::Join { p: 0 },
            },
            5 => self.advance(w),
            6 => match self.pick_running(w) {
                Some(p) => Cmd::Evaluate { p },
                None => Cmd::Join { p: 0 },
            },
            7 => {
                let p = self.r.usize_below(n);
                if w.running(p) {
                    let others = (0..n).filter(|q| w.running(*q)).count();
                    if others > 1 {
                        return Cmd::Crash { p };
                    }
                    Cmd::Evaluate { p }
                } else if w.last_inc[p].is_some() && self.restarts < self.k.max_restarts {
                    // two-cluster runs: sometimes the other cluster takes the address over first
                    if self.k.profile == Profile::TwoClusters && self.r.chance(0.35) {
                        return Cmd::Rehome { p };
                    }
                    self.restarts += 1;
                    Cmd::Restart { p }
                } else {
                    Cmd::Join { p }
                }
            }
            8 => {
                let p = self.r.usize_below(n);
                if w.running(p) {
                    Cmd::Gc { p }
                } else if w.last_inc[p].is_none() {
                    Cmd::Join { p }
                } else if self.restarts < self.k.max_restarts {
                    self.restarts += 1;
                    Cmd::Restart { p }
                } else {
                    self.advance(w)
                }
            }
            9 => {
                let (Some(p), Some(q)) = (self.pick_running(w), self.pick_running(w)) else { return Cmd::Join { p: 0 } };
                if w.incs.is_empty() {
                    return self.advance(w);
                }
                Cmd::Catchup { p, member: self.r.usize_below(w.incs.len()), q, claim_collected: self.k.odd_catchup && self.r.chance(0.4) }
            }
            10 => {
                if w.groups.is_some() && self.r.chance(0.6) {
                    Cmd::Heal
                } else {
                    Cmd::Partition { groups: (0..n).map(|_| self.r.below(2) as u8).collect() }
                }
            }
            11 => {
                let Some(p) = self.pick_running(w) else { return Cmd::Join { p: 0 } };
                let subs = w.nodes[p].as_ref().unwrap().subs.len();
                if self.r.chance(0.25) {
                    return Cmd::Watch { p, attach: w.nodes[p].as_ref().unwrap().watch_rx.is_none() };
                }
                // (only nodes allowed to own data write: the size assumptions of the run depend on it)
                if subs > 0 && self.k.writers.contains(&p) && self.r.chance(0.15) {
                    self.val_ctr += 1;
                    let key = self.r.pick(&self.k.keys).clone();
                    return Cmd::WriteDropping { p, key, val: ValSpec { class: 1, len: self.r.below(12) as u32, seed: (self.r.next() << 12) | self.val_ctr }, sub: self.r.usize_below(subs) };
                }
                if subs < 8 && (subs == 0 || self.r.chance(0.6)) {
                    Cmd::Subscribe { p, prefix: self.r.pick(&self.k.prefixes).clone(), panicky: self.k.allow_panicky && self.r.chance(0.3) }
                } else if self.r.chance(0.5) {
                    Cmd::Unsubscribe { p, sub: self.r.usize_below(subs) }
                } else {
                    Cmd::Forever { p, sub: self.r.usize_below(subs) }
                }
            }
            12 => {
                let (Some(a), Some(b)) = (self.pick_running(w), self.pick_running(w)) else { return Cmd::Join { p: 0 } };
                Cmd::Handshake { a, b }
            }
            13 => Cmd::Advance { ms: w.cfg.gossip_interval_ms },
            _ => {
                let Some(to) = self.pick_running(w) else { return Cmd::Join { p: 0 } };
                let bytes = crate::hostile::craft(&mut self.r, w, &self.captured, to);
                Cmd::Inject { to, hex: hex(&bytes) }
            }
        }
    }
}

pub struct Generated {
    pub cfg: E1Config,
    pub cmds: Vec<Cmd>,
    pub world: World,
    pub violation: Option<Violation>,
    pub profile: Profile,
}

/// Generates and executes one run. The command list alone reproduces it.
pub fn run_generated(seed: u64, profile: Profile, enabled: &[String], keep_log: bool) -> Generated {
    let mut r = Rng::new(seed);
    let (cfg, knobs) = draw(&mut r, profile, enabled);
    crate::abort::tee_cfg("E1", profile.name(), &serde_json::to_value(&cfg).unwrap());
    let mut w = World::new(cfg.clone(), keep_log);
    let mut cmds: Vec<Cmd> = Vec::new();
    let mut g = Gen { r, k: knobs, restarts: 0, val_ctr: 0, captured: Vec::new() };
    let mut violation = None;
    let mut run = |w: &mut World, cmds: &mut Vec<Cmd>, c: Cmd| -> bool {
        crate::abort::tee_cmd(&c);
        let res = w.apply(&c);
        cmds.push(c);
        match res {
            Ok(()) => true,
            Err(v) => {
                violation = Some(v);
                false
            }
        }
    };
    let initial = g.k.initial_running;
    let mut ok = true;
    for p in 0..initial.min(cfg.n) {
        ok = ok && run(&mut w, &mut cmds, Cmd::Join { p });
    }
    // C13 runs, sometimes: a scripted opening that puts a TTL key the predicate depends on below the
    // watermark of a live, published member's copy (through an inconsistent catch-up input), lets it
    // expire without any change of the copy's (watermark, max version), and evaluates again
    if ok && g.k.odd_catchup && cfg.n >= 3 && cfg.predicate && g.r.chance(0.1) {
        let small = |g: &mut Gen| {
            g.val_ctr += 1;
            ValSpec { class: 1, len: 3, seed: (g.r.next() << 20) | g.val_ctr }
        };
        let mut script: Vec<Cmd> = vec![Cmd::Join { p: 0 }, Cmd::Join { p: 1 }, Cmd::Join { p: 2 }];
        script.push(Cmd::Write { p: 1, op: WriteOp::SetTtl, key: "svc".into(), val: small(&mut g) });
        script.push(Cmd::Handshake { a: 0, b: 1 });
        script.push(Cmd::Handshake { a: 2, b: 1 });
        for _ in 0..3 {
            script.push(Cmd::Handshake { a: 1, b: 0 });
            script.push(Cmd::Advance { ms: 1000 });
        }
        script.push(Cmd::Evaluate { p: 0 });
        script.push(Cmd::Write { p: 1, op: WriteOp::Set, key: "x".into(), val: small(&mut g) });
        script.push(Cmd::Handshake { a: 2, b: 1 });
        for c in script {
            ok = ok && run(&mut w, &mut cmds, c);
        }
        if ok && w.running(1) {
            let member = w.nodes[1].as_ref().unwrap().inc;
            let grace = cfg.grace_ms[0];
            let mut tail: Vec<Cmd> = vec![Cmd::Catchup { p: 0, member, q: 2, claim_collected: true }, Cmd::Handshake { a: 1, b: 0 }, Cmd::Evaluate { p: 0 }];
            tail.push(Cmd::Advance { ms: grace + g.r.below(3) * 1000 });
            tail.push(Cmd::Handshake { a: 1, b: 0 });
            tail.push(Cmd::Advance { ms: 1000 });
            tail.push(Cmd::Handshake { a: 1, b: 0 });
            tail.push(Cmd::Gc { p: 0 });
            tail.push(Cmd::Evaluate { p: 0 });
            for c in tail {
                ok = ok && run(&mut w, &mut cmds, c);
            }
        }
    }
    let mut i = 0;
    let mut round_pending: Vec<Cmd> = Vec::new();
    while ok && i < g.k.steps {
        i += 1;
        let c = if let Some(c) = round_pending.pop() { c } else { g.next(&w) };
        // a "round" expands to: advance one interval, every running node ticks
        let is_round = matches!(&c, Cmd::Advance { ms } if *ms == w.cfg.gossip_interval_ms) && g.r.chance(0.5);
        if is_round {
            for p in (0..cfg.n).rev() {
                if w.running(p) {
                    if g.k.real_selection {
                        round_pending.push(Cmd::TickSelect { p, rng_seed: g.r.next(), mode: 0 });
                    } else {
                        let peers: Vec<usize> = (0..cfg.n).filter(|q| *q != p && g.r.chance(0.7)).collect();
                        round_pending.push(Cmd::Tick { p, peers });
                    }
                }
            }
        }
        if g.k.profile == Profile::Hostile && w.flights.len() > g.captured.len() {
            for f in w.flights.iter().skip(g.captured.len()) {
                if !f.hostile && g.captured.len() < 64 {
                    g.captured.push(f.bytes.to_vec());
                }
            }
        }
        ok = run(&mut w, &mut cmds, c);
    }
    if ok && g.k.quiesce {
        loop {
            ok = run(&mut w, &mut cmds, Cmd::QuiesceRound);
            if !ok {
                break;
            }
            if w.converged().is_ok() || w.quiesce_rounds >= w.quiesce_budget {
                ok = run(&mut w, &mut cmds, Cmd::ExpectConverged);
                break;
            }
        }
    }
    let _ = ok;
    Generated { cfg, cmds, world: w, violation, profile }
}

/// Replays a command list.
pub fn run_replay(cfg: &E1Config, cmds: &[Cmd], keep_log: bool) -> (World, Option<Violation>) {
    let mut w = World::new(cfg.clone(), keep_log);
    for c in cmds {
        if let Err(v) = w.apply(c) {
            return (w, Some(v));
        }
    }
    (w, None)
}
