//! E1 as an `Engine`: which profiles serve which property, outcome extraction.

use serde_json::Value;

use super::gen::{self, Profile};
use super::types::{Cmd, E1Config};
use super::world::World;
use crate::common::{Outcome, Violation};
use crate::engine::{Engine, RunRecord};
use crate::rng::Rng;

pub struct E1;

fn profiles_for(prop: &str) -> &'static [(Profile, u32)] {
    use Profile::*;
    match prop {
        "C01" => &[(General, 50), (SizePressure, 20), (DeathHeavy, 15), (SmallVersions, 15)],
        "C02" => &[(General, 50), (SmallVersions, 25), (DeathHeavy, 10), (SizePressure, 15)],
        "C03" => &[(General, 60), (SizePressure, 20), (SmallVersions, 20)],
        "C04" => &[(General, 50), (SmallVersions, 30), (SizePressure, 20)],
        "C05" => &[(General, 60), (SmallVersions, 20), (DeathHeavy, 20)],
        "C06" => &[(General, 40), (SmallVersions, 60)],
        "C07" => &[(SizePressure, 60), (General, 30), (SmallVersions, 10)],
        "C08" => &[(General, 40), (SizePressure, 40), (TwoClusters, 10), (SmallVersions, 10)],
        "C09" => &[(Hostile, 100)],
        "C10" | "C11" => &[(DeathHeavy, 50), (General, 50)],
        "C12" => &[(DeathHeavy, 70), (General, 30)],
        "C13" => &[(DeathHeavy, 50), (General, 50)],
        "C14" => &[(SmallVersions, 60), (General, 30), (SizePressure, 10)],
        "C15" => &[(Listeners, 60), (General, 40)],
        "C16" => &[(TwoClusters, 100)],
        "C17" => &[(Select, 80), (DeathHeavy, 20)],
        "C18" => &[(General, 60), (SmallVersions, 40)],
        "C20" => &[(SmallVersions, 60), (General, 40)],
        _ => &[(General, 100)],
    }
}

pub fn pick_profile(seed: u64, prop: &str) -> Profile {
    let table = profiles_for(prop);
    let total: u32 = table.iter().map(|x| x.1).sum();
    let mut x = Rng::new(seed ^ 0x9f0f11e).below(total as u64) as u32;
    for (p, w) in table {
        if x < *w {
            return *p;
        }
        x -= w;
    }
    table[0].0
}

pub fn outcome_of(w: &World, violation: Option<Violation>, prop: &str) -> Outcome {
    let mut o = Outcome {
        trace: w.trace.0,
        stats: w.stats.clone(),
        steps: w.step as u64,
        sim_ms: w.now_ms,
        nontrivial: w.nontrivial.contains(prop),
        abs_states: w.abs_states.iter().copied().collect(),
        abs_transitions: w.abs_transitions.iter().copied().collect(),
        known_hits: w.known_hits.clone(),
        ..Default::default()
    };
    match violation {
        Some(v) if v.property == prop => o.violation = Some(v),
        Some(v) => o.foreign_abort = Some(format!("{}: {}", v.code, v.detail)),
        None => {}
    }
    o
}

impl Engine for E1 {
    fn name(&self) -> &'static str {
        "E1"
    }

    fn generate(&self, seed: u64, prop: &str) -> RunRecord {
        let profile = pick_profile(seed, prop);
        let enabled = vec![prop.to_string()];
        let mut g = gen::run_generated(seed, profile, &enabled, false);
        if prop == "C18" {
            g.world.stats.inc("profile_c18");
        }
        g.world.stats.inc(&format!("profile_{}", profile.name()));
        let outcome = outcome_of(&g.world, g.violation.clone(), prop);
        RunRecord {
            engine: "E1",
            profile: profile.name().to_string(),
            cfg: serde_json::to_value(&g.cfg).unwrap(),
            cmds: g.cmds.iter().map(|c| serde_json::to_value(c).unwrap()).collect(),
            outcome,
        }
    }

    fn replay(&self, cfg: &Value, cmds: &[Value], prop: &str, log: bool) -> (Outcome, Vec<String>) {
        let cfg: E1Config = serde_json::from_value(cfg.clone()).expect("E1 config");
        let cmds: Vec<Cmd> = cmds.iter().filter_map(|c| serde_json::from_value(c.clone()).ok()).collect();
        let (w, v) = gen::run_replay(&cfg, &cmds, log);
        let o = outcome_of(&w, v, prop);
        (o, w.log)
    }

    fn real_components(&self) -> Vec<&'static str> {
        vec![
            "chitchat/src/lib.rs (Chitchat: create_syn_message, process_message, update_nodes_liveness, gc, heartbeat, reset_node_state_if_update)",
            "chitchat/src/state.rs",
            "chitchat/src/delta.rs",
            "chitchat/src/digest.rs",
            "chitchat/src/message.rs",
            "chitchat/src/serialize.rs",
            "chitchat/src/failure_detector.rs",
            "chitchat/src/listener.rs",
            "chitchat/src/types.rs",
            "chitchat/src/server.rs::select_nodes_for_gossip (through the verif facade)",
        ]
    }

    fn stub_components(&self) -> Vec<&'static str> {
        vec![
            "chitchat/src/server.rs Server::run / gossip_multiple / handle_message (mirrored by the simulator's tick and deliver steps)",
            "chitchat/src/transport/* (the simulator is the network; every message still crosses it as bytes)",
            "tokio clock (paused, advanced by the simulator)",
        ]
    }
}
