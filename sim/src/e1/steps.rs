//! Interpreter: one command = one atomic step (or a fixed composition of steps).

use std::collections::{BTreeMap, HashSet};
use std::net::SocketAddr;
use std::sync::atomic::Ordering;
use std::time::Duration;

use chitchat::VersionedValue;

use super::types::*;
use super::world::*;
use crate::codec::Id;
use crate::common::{guarded, ValSpec, Violation};

thread_local! {
    /// set while the harness performs a local write (panicky listeners only panic then)
    static LOCAL_WRITE: std::cell::Cell<bool> = const { std::cell::Cell::new(false) };
    /// run once by the first callback that is invoked (WriteDropping)
    static CALLBACK_HOOK: std::cell::RefCell<Option<Box<dyn FnOnce()>>> = const { std::cell::RefCell::new(None) };
}

fn run_callback_hook() {
    let hook = CALLBACK_HOOK.with(|h| h.borrow_mut().take());
    if let Some(f) = hook {
        f();
    }
}

impl World {
    pub fn apply(&mut self, cmd: &Cmd) -> Result<(), Violation> {
        self.step += 1;
        self.stats.inc(&format!("cmd_{}", cmd.name()));
        self.trace.s(cmd.name());
        if self.keep_log {
            let c = match cmd {
                Cmd::Inject { to, hex } => format!("Inject {{ to: {to}, {} bytes }}", hex.len() / 2),
                other => format!("{other:?}"),
            };
            self.note(|| c);
        }
        match cmd {
            Cmd::Advance { ms } => {
                let ms = (*ms).min(10_000_000);
                self.rt.block_on(async { tokio::time::advance(Duration::from_millis(ms)).await });
                self.now_ms += ms;
                self.trace.u(ms);
                Ok(())
            }
            Cmd::Write { p, op, key, val } => self.write(*p, *op, key, val),
            Cmd::Syn { a, b } => self.syn(*a, *b).map(|_| ()),
            Cmd::Deliver { from, to, idx, keep } => {
                let link = self.link(*from, *to);
                match link.get(*idx) {
                    Some(&fi) => self.deliver_idx(fi, *keep).map(|_| ()),
                    None => Ok(()),
                }
            }
            Cmd::Drop { from, to, idx } => {
                let link = self.link(*from, *to);
                if let Some(&fi) = link.get(*idx) {
                    self.flights.remove(fi);
                    self.stats.inc("fault_drop");
                }
                Ok(())
            }
            Cmd::Heartbeat { p } => self.heartbeat(*p),
            Cmd::Gc { p } => self.gc(*p),
            Cmd::Evaluate { p } => self.evaluate(*p),
            Cmd::Tick { p, peers } => self.tick(*p, peers),
            Cmd::TickSelect { p, rng_seed, mode } => self.tick_select(*p, *rng_seed, *mode),
            Cmd::Partition { groups } => {
                self.groups = Some(groups.clone());
                self.stats.inc("fault_partition");
                Ok(())
            }
            Cmd::Heal => {
                self.groups = None;
                Ok(())
            }
            Cmd::Crash { p } => {
                if self.running(*p) {
                    self.stats.inc("fault_crash");
                    self.crash(*p);
                }
                Ok(())
            }
            Cmd::Restart { p } => {
                if *p < self.cfg.n && !self.running(*p) && self.last_inc[*p].is_some() {
                    self.stats.inc("fault_restart");
                    self.start_node(*p);
                }
                Ok(())
            }
            Cmd::Join { p } => {
                if *p < self.cfg.n && !self.running(*p) && self.last_inc[*p].is_none() {
                    self.stats.inc("late_join");
                    self.start_node(*p);
                }
                Ok(())
            }
            Cmd::Subscribe { p, prefix, panicky } => {
                if let Some(node) = self.nodes.get_mut(*p).and_then(|n| n.as_mut()) {
                    let si = node.subs.len();
                    let calls = node.calls.clone();
                    let panicky = *panicky;
                    let handle = node.chit.subscribe_event(prefix.clone(), move |ev| {
                        run_callback_hook();
                        calls.lock().unwrap().push((si, ev.key.to_string(), ev.value.to_string(), Id::from_real(ev.node)));
                        if panicky && LOCAL_WRITE.with(|c| c.get()) {
                            panic!("injected listener panic");
                        }
                    });
                    node.subs.push(Sub { prefix: prefix.clone(), handle: Some(handle), active: true });
                }
                Ok(())
            }
            Cmd::Unsubscribe { p, sub } => {
                if let Some(node) = self.nodes.get_mut(*p).and_then(|n| n.as_mut()) {
                    if let Some(s) = node.subs.get_mut(*sub) {
                        if let Some(h) = s.handle.take() {
                            drop(h);
                            s.active = false;
                        }
                    }
                }
                Ok(())
            }
            Cmd::Forever { p, sub } => {
                if let Some(node) = self.nodes.get_mut(*p).and_then(|n| n.as_mut()) {
                    if let Some(s) = node.subs.get_mut(*sub) {
                        if let Some(h) = s.handle.take() {
                            h.forever();
                        }
                    }
                }
                Ok(())
            }
            Cmd::WriteDropping { p, key, val, sub } => {
                let handle = self.nodes.get_mut(*p).and_then(|n| n.as_mut()).and_then(|n| n.subs.get_mut(*sub)).and_then(|s| s.handle.take());
                let Some(handle) = handle else {
                    return self.write(*p, WriteOp::Set, key, val);
                };
                // application thread B: waits until a callback is running in this thread (the
                // registry is then locked for reading), announces itself and drops the handle
                let (go_tx, go_rx) = std::sync::mpsc::channel::<()>();
                let (att_tx, att_rx) = std::sync::mpsc::channel::<()>();
                let dropper = std::thread::spawn(move || {
                    if go_rx.recv_timeout(std::time::Duration::from_secs(5)).is_ok() {
                        let _ = att_tx.send(());
                    }
                    drop(handle);
                });
                let go2 = go_tx.clone();
                CALLBACK_HOOK.with(|h| {
                    *h.borrow_mut() = Some(Box::new(move || {
                        let _ = go2.send(());
                        // give B the time to reach the registry lock while this callback still runs
                        if att_rx.recv_timeout(std::time::Duration::from_millis(500)).is_ok() {
                            std::thread::sleep(std::time::Duration::from_millis(2));
                        }
                    }));
                });
                let res = self.write(*p, WriteOp::Set, key, val);
                // no callback ran: release B anyway
                CALLBACK_HOOK.with(|h| h.borrow_mut().take());
                let _ = go_tx.send(());
                let _ = dropper.join();
                if let Some(s) = self.nodes.get_mut(*p).and_then(|n| n.as_mut()).and_then(|n| n.subs.get_mut(*sub)) {
                    s.active = false;
                }
                self.stats.inc("fault_handle_dropped_by_another_thread_during_a_callback");
                res
            }
            Cmd::Rehome { p } => {
                if *p < self.cfg.n && !self.running(*p) && self.cfg.cluster_ids.len() == 2 {
                    self.cluster_now[*p] = 1 - self.cluster_now[*p];
                    self.stats.inc("fault_address_changes_cluster");
                }
                Ok(())
            }
            Cmd::Watch { p, attach } => {
                if let Some(node) = self.nodes.get_mut(*p).and_then(|n| n.as_mut()) {
                    if *attach {
                        if node.watch_rx.is_none() {
                            let mut rx = node.chit.live_nodes_watcher();
                            // a new consumer has seen nothing yet: what it reads first is checked at
                            // the next evaluation
                            rx.mark_unchanged();
                            node.watch_rx = Some(rx);
                            self.stats.inc("watch_attached");
                        }
                    } else if node.watch_rx.take().is_some() {
                        self.stats.inc("watch_detached");
                    }
                }
                Ok(())
            }
            Cmd::Catchup { p, member, q, claim_collected } => self.catchup(*p, *member, *q, *claim_collected),
            Cmd::Inject { to, hex } => self.inject(*to, unhex(hex)),
            Cmd::Handshake { a, b } => self.handshake(*a, *b).map(|_| ()),
            Cmd::QuiesceRound => self.quiesce_round(),
            Cmd::ExpectConverged => self.expect_converged(),
        }
    }

    fn write(&mut self, p: usize, op: WriteOp, key: &str, val: &ValSpec) -> Result<(), Violation> {
        if !self.running(p) {
            return Ok(());
        }
        let value = val.render();
        let now = self.now_ms;
        let inc = self.nodes[p].as_ref().unwrap().inc;
        let my_id = self.incs[inc].id.clone();
        let node = self.nodes[p].as_mut().unwrap();
        node.calls.lock().unwrap().clear();
        let ns = node.chit.self_node_state();
        let before_mv = ns.max_version();
        let before_gc = ns.last_gc_version();
        let before_entry = ns.get_versioned(key).map(|v| (v.value.clone(), v.version, kind_of(&v.status)));
        let res = {
            let _g = self.rt.enter();
            LOCAL_WRITE.with(|c| c.set(true));
            let r = guarded(|| {
                let ns = node.chit.self_node_state();
                match op {
                    WriteOp::Set => ns.set(key, &value),
                    WriteOp::SetTtl => ns.set_with_ttl(key, &value),
                    WriteOp::Delete => ns.delete(key),
                    WriteOp::DeleteTtl => ns.delete_after_ttl(key),
                }
            });
            LOCAL_WRITE.with(|c| c.set(false));
            r
        };
        // a panic of the application's own callback is a fault of user code: the write itself has
        // to be complete and the node consistent (the checks below run as for any other write)
        let res = match res {
            Err(pmsg) if pmsg.contains("injected listener panic") => {
                self.stats.inc("fault_listener_panic");
                Ok(())
            }
            other => other,
        };
        if let Err(pmsg) = res {
            let (prop, code) = if pmsg.contains("listener.rs") { ("C15", "C15.panic") } else { ("C04", "C04.panic_write") };
            return Err(self.viol(prop, code, format!("local {op:?} of key {key:?} panicked on n{p}: {pmsg}")));
        }
        let ns = node.chit.self_node_state();
        let after_mv = ns.max_version();
        let after_gc = ns.last_gc_version();
        let after_entry = ns.get_versioned(key).map(|v| (v.value.clone(), v.version, kind_of(&v.status)));
        // reference model of version allocation (C04 a, C06)
        let expected: Option<(String, u64, u8)> = match (op, &before_entry) {
            (WriteOp::Set, Some((v, _, 0))) if *v == value => None,
            (WriteOp::Set, _) => Some((value.clone(), before_mv + 1, 0)),
            (WriteOp::SetTtl, Some((v, _, 2))) if *v == value => None,
            (WriteOp::SetTtl, _) => Some((value.clone(), before_mv + 1, 2)),
            (WriteOp::Delete, Some(_)) => Some((String::new(), before_mv + 1, 1)),
            (WriteOp::Delete, None) => None,
            // a tombstone is a deleted key: scheduling it for deletion again is a no-op (F-10)
            (WriteOp::DeleteTtl, Some((_, _, 1))) => None,
            (WriteOp::DeleteTtl, Some((v, _, _))) => Some((v.clone(), before_mv + 1, 2)),
            (WriteOp::DeleteTtl, None) => None,
        };
        let effective = after_mv != before_mv || after_entry != before_entry;
        if self.en.contains("C04") || self.en.contains("C06") {
            let prop = if self.en.contains("C04") { "C04" } else { "C06" };
            self.nontrivial.insert(prop.into());
            let ok = match &expected {
                None => after_mv == before_mv && after_entry == before_entry,
                Some(e) => after_mv == before_mv + 1 && after_entry.as_ref() == Some(e),
            };
            if !ok || after_gc != before_gc {
                return Err(Violation {
                    property: prop.into(),
                    code: format!("{prop}.alloc"),
                    step: self.step,
                    detail: format!(
                        "n{p} {op:?} {key:?}: max version {before_mv} -> {after_mv}, entry {:?} -> {:?}, model expected {:?}",
                        before_entry.as_ref().map(|e| (e.0.len(), e.1, e.2)),
                        after_entry.as_ref().map(|e| (e.0.len(), e.1, e.2)),
                        expected.as_ref().map(|e| (e.0.len(), e.1, e.2))
                    ),
                    finding: String::new(),
                });
            }
            if expected.is_none() {
                self.stats.inc("probe_noop_write");
            }
        }
        // ledger: what the owner actually stored
        if effective {
            if let Some((v, ver, kind)) = &after_entry {
                let w = Wr { key: key.to_string(), value: v.clone(), version: *ver, kind: *kind };
                let owner = &mut self.incs[inc];
                owner.ledger.insert((key.to_string(), *ver), w.clone());
                owner.latest.insert(key.to_string(), w);
                if *kind != 0 {
                    node.marks.insert((my_id.clone(), key.to_string()), (*ver, now));
                } else {
                    node.marks.remove(&(my_id.clone(), key.to_string()));
                }
            }
        }
        self.incs[inc].max_version = after_mv;
        self.trace.u(after_mv);
        // listeners (C15): plain and TTL sets to a new value
        if self.en.contains("C15") {
            let mut expected_calls: Vec<Call> = Vec::new();
            if effective && matches!(op, WriteOp::Set | WriteOp::SetTtl) {
                for (si, sub) in node.subs.iter().enumerate() {
                    if sub.active {
                        if let Some(stripped) = key.strip_prefix(sub.prefix.as_str()) {
                            expected_calls.push((si, stripped.to_string(), value.clone(), my_id.clone()));
                        }
                    }
                }
            }
            self.compare_calls(p, expected_calls, "local write")?;
        }
        self.refresh_view(p);
        self.check_copies(p, false)
    }

    pub fn syn(&mut self, a: usize, b: usize) -> Result<bool, Violation> {
        if !self.running(a) || b >= self.cfg.n || a == b {
            return Ok(false);
        }
        let msg = {
            let _g = self.rt.enter();
            let node = self.nodes[a].as_ref().unwrap();
            guarded(|| node.chit.verif_create_syn_message())
        };
        let msg = match msg {
            Ok(m) => m,
            Err(p) => return Err(self.viol("C04", "C04.panic", format!("create_syn_message panicked on n{a}: {p}"))),
        };
        let inc = self.nodes[a].as_ref().unwrap().inc;
        let sent = self.emit(a, b, &msg, None, inc)?;
        Ok(sent.is_some() && self.same_group(a, b))
    }

    fn heartbeat(&mut self, p: usize) -> Result<(), Violation> {
        if !self.running(p) {
            return Ok(());
        }
        let res = {
            let node = self.nodes[p].as_mut().unwrap();
            guarded(|| node.chit.verif_update_self_heartbeat())
        };
        if let Err(pm) = res {
            let (prop, code) = if self.cfg.hostile { ("C09", "C09.panic") } else { ("C04", "C04.panic") };
            return Err(self.viol(prop, code, format!("the node's own heartbeat tick panicked on n{p}: {pm}")));
        }
        let node = self.nodes[p].as_mut().unwrap();
        let inc = node.inc;
        self.incs[inc].hb += 1;
        self.refresh_view(p);
        Ok(())
    }

    fn gc(&mut self, p: usize) -> Result<(), Violation> {
        if !self.running(p) {
            return Ok(());
        }
        let grace = self.cfg.grace_ms[p];
        let now = self.now_ms;
        let res = {
            let _g = self.rt.enter();
            let node = self.nodes[p].as_mut().unwrap();
            guarded(|| node.chit.verif_gc_keys_marked_for_deletion())
        };
        if let Err(pm) = res {
            return Err(self.viol("C04", "C04.panic", format!("tombstone GC panicked on n{p}: {pm}")));
        }
        let (before, after) = self.refresh_view(p);
        let mut removed_total = 0u64;
        let own_inc = self.nodes[p].as_ref().unwrap().inc;
        for (id, b) in &before {
            let Some(a) = after.get(id) else {
                return Err(self.viol("C06", "C06.gc_member_vanished", format!("n{p} lost {} during tombstone GC", id.short())));
            };
            let node = self.nodes[p].as_mut().unwrap();
            let mut expect = b.entries.clone();
            let mut top = b.gc;
            let mut modelled = true;
            for (k, e) in &b.entries {
                if e.kind == 0 {
                    continue;
                }
                match node.marks.get(&(id.clone(), k.clone())) {
                    Some((ver, mark)) if *ver == e.version => {
                        if now >= mark + grace {
                            expect.remove(k);
                            top = top.max(e.version);
                        }
                    }
                    _ => modelled = false,
                }
            }
            let removed = b.entries.len() - a.entries.len().min(b.entries.len());
            removed_total += removed as u64;
            if !modelled {
                self.stats.inc("model_gap_marks");
            } else if self.en.contains("C06") {
                if removed > 0 {
                    self.nontrivial.insert("C06".into());
                }
                if a.entries != expect || a.gc != top || a.mv != b.mv {
                    let want_removed: Vec<&String> = b.entries.keys().filter(|k| !expect.contains_key(*k)).collect();
                    let got_removed: Vec<&String> = b.entries.keys().filter(|k| !a.entries.contains_key(*k)).collect();
                    return Err(self.viol(
                        "C06",
                        "C06.gc",
                        format!(
                            "n{p} GC on copy of {} at t={now} (grace {grace}): removed {:?}, model removes {:?}; frontier ({}, {}) -> ({}, {}), model watermark {}",
                            id.short(), got_removed, want_removed, b.gc, b.mv, a.gc, a.mv, top
                        ),
                    ));
                }
            }
            for k in b.entries.keys() {
                if !a.entries.contains_key(k) {
                    node.marks.remove(&(id.clone(), k.clone()));
                }
            }
            if a.gc > b.gc && self.incs[own_inc].id != *id {
                self.stats.inc("probe_replica_gc_raised_watermark");
            }
        }
        if removed_total > 0 {
            self.stats.add("probe_gc_removed", removed_total);
        }
        if self.en.contains("C04") {
            for (id, b) in &before {
                if let Some(a) = after.get(id) {
                    if (a.gc, a.mv) < (b.gc, b.mv) {
                        return Err(self.viol("C04", "C04.frontier_decreased", format!("n{p} GC lowered frontier of {}", id.short())));
                    }
                }
            }
        }
        self.check_copies(p, false)
    }

    pub fn evaluate(&mut self, p: usize) -> Result<(), Violation> {
        if !self.running(p) {
            return Ok(());
        }
        let now = self.now_ms;
        let grace = self.cfg.dead_grace_ms[p];
        let inc = self.nodes[p].as_ref().unwrap().inc;
        let me = self.incs[inc].id.clone();
        let before = self.nodes[p].as_ref().unwrap().view.clone();
        let res = {
            let _g = self.rt.enter();
            let node = self.nodes[p].as_mut().unwrap();
            guarded(|| node.chit.verif_update_nodes_liveness())
        };
        if let Err(pm) = res {
            return Err(self.viol("C04", "C04.panic", format!("liveness evaluation panicked on n{p}: {pm}")));
        }
        let (_, after) = self.refresh_view(p);
        // C05: a liveness evaluation touches neither the node's own key-values nor its heartbeat
        if self.en.contains("C05") {
            if before.get(&me) != after.get(&me) {
                return Err(self.viol("C05", "C05.own_state_changed_by_evaluation", format!("n{p} own state or heartbeat changed during a liveness evaluation")));
            }
        }
        let node = self.nodes[p].as_mut().unwrap();
        let live: HashSet<Id> = node.chit.live_nodes().map(Id::from_real).collect();
        let dead: HashSet<Id> = node.chit.dead_nodes().map(Id::from_real).collect();
        let known: HashSet<Id> = after.keys().cloned().collect();
        let c12 = self.en.contains("C12");
        let step = self.step;
        let mk = |prop: &str, code: &str, detail: String| Violation { property: prop.into(), code: code.into(), step, detail, finding: String::new() };
        let mut lt = live.iter().map(|i| i.short()).collect::<Vec<_>>();
        lt.sort();
        for s in &lt {
            self.trace.s(s);
        }
        if c12 {
            if live.intersection(&dead).next().is_some() {
                return Err(mk("C12", "C12.overlap", format!("n{p} live and dead sets overlap")));
            }
            if !live.contains(&me) || dead.contains(&me) || !known.contains(&me) {
                return Err(mk("C12", "C12.self", format!("n{p} does not list itself as live")));
            }
            for id in &known {
                if id != &me && live.contains(id) == dead.contains(id) {
                    return Err(mk("C12", "C12.exactly_one", format!("n{p}: {} is in {} sets after evaluation", id.short(), if live.contains(id) { "both" } else { "neither of the" })));
                }
            }
        }
        // death clock model
        for id in before.keys() {
            if id == &me {
                continue;
            }
            if live.contains(id) {
                if node.death.remove(id).is_some() {
                    self.stats.inc("probe_dead_to_live");
                }
                continue;
            }
            if known.contains(id) {
                let d = *node.death.entry(id.clone()).or_insert(now);
                if c12 && now >= d + grace {
                    return Err(mk("C12", "C12.not_removed", format!("n{p} still holds {} dead since {d} at {now} (grace {grace})", id.short())));
                }
                if d + grace / 2 + 2 < now {
                    self.stats.inc("probe_scheduled_for_deletion");
                }
            } else {
                let d = node.death.remove(id);
                self.stats.inc("probe_member_removed");
                if c12 {
                    self.nontrivial.insert("C12".into());
                    match d {
                        None => return Err(mk("C12", "C12.removed_never_dead", format!("n{p} removed {} which the model never saw dead", id.short()))),
                        Some(d) if now < d + grace => {
                            return Err(mk("C12", "C12.removed_early", format!("n{p} removed {} dead since {d} already at {now} (grace {grace})", id.short())))
                        }
                        _ => {}
                    }
                }
                node.removed_hb.insert(id.clone(), before[id].hb);
                node.obs.remove(id);
                node.marks.retain(|k, _| &k.0 != id);
                node.taint.retain(|k| &k.0 != id);
                node.c02_ignore.retain(|k| &k.0 != id);
                node.verified.retain(|k| &k.0 != id);
            }
        }
        if c12 {
            for id in live.iter().chain(dead.iter()) {
                if !known.contains(id) {
                    return Err(mk("C12", "C12.ghost", format!("n{p} lists {} as live or dead without holding its state", id.short())));
                }
            }
        }
        // C10 / C11 monitors
        let thr_ms = self.cfg.phi * (self.cfg.max_interval_ms[p].max(self.cfg.initial_interval_ms[p]) as f64);
        for id in &known {
            if id == &me {
                continue;
            }
            let o = node.obs.get(id).cloned().unwrap_or_default();
            let is_live = live.contains(id);
            if self.en.contains("C11") {
                self.nontrivial.insert("C11".into());
                if is_live && o.count < 2 {
                    return Err(mk("C11", "C11.live_too_early", format!("n{p} reports {} live after {} heartbeat observation(s)", id.short(), o.count)));
                }
            }
            if self.en.contains("C10") {
                let silent = (now - o.last_ms) as f64;
                if o.count == 0 || silent > thr_ms * (1.0 + 1e-6) {
                    self.nontrivial.insert("C10".into());
                    if is_live || !dead.contains(id) {
                        return Err(mk(
                            "C10",
                            "C10.not_detected",
                            format!("n{p} still reports {} {} at {now}: last fresh heartbeat at {} (bound {thr_ms} ms, {} observations)", id.short(), if is_live { "live" } else { "neither live nor dead" }, o.last_ms, o.count),
                        ));
                    }
                }
            }
        }
        // C13: watch channel
        if self.en.contains("C13") {
            self.nontrivial.insert("C13".into());
            let want: BTreeMap<Id, u64> = live
                .iter()
                .filter_map(|id| {
                    let ns = node.chit.node_state(&id.to_real())?;
                    if self.cfg.predicate && ns.get("svc").is_none() {
                        return None;
                    }
                    Some((id.clone(), ns.max_version()))
                })
                .collect();
            let cur_live: BTreeMap<Id, u64> = live.iter().filter_map(|id| after.get(id).map(|c| (id.clone(), c.mv))).collect();
            let must_publish = node.prev_eval_live.as_ref().map(|prev| prev != &cur_live).unwrap_or(false);
            // with no consumer attached the value is read through a receiver opened now and dropped
            // at once; whether something was published can then not be observed
            let mut transient = None;
            let persistent = node.watch_rx.is_some();
            let rx = match node.watch_rx.as_mut() {
                Some(rx) => rx,
                None => transient.insert(node.chit.live_nodes_watcher()),
            };
            let changed = rx.has_changed().unwrap_or(false);
            let chan: BTreeMap<Id, u64> = rx.borrow_and_update().iter().map(|(rid, ns)| (Id::from_real(rid), ns.max_version())).collect();
            drop(transient);
            let must_publish = must_publish && persistent;
            node.prev_eval_live = Some(cur_live);
            if changed {
                self.stats.inc("probe_watch_published");
            }
            let chan_keys: Vec<String> = chan.keys().map(|i| i.short()).collect();
            let want_keys: Vec<String> = want.keys().map(|i| i.short()).collect();
            if chan_keys != want_keys {
                return Err(mk("C13", "C13.members", format!("n{p} channel lists {chan_keys:?}, live members satisfying the predicate are {want_keys:?}")));
            }
            if chan != want {
                return Err(mk("C13", "C13.snapshot_version", format!("n{p} channel snapshots carry {:?}, copies are at {:?}", chan.values().collect::<Vec<_>>(), want.values().collect::<Vec<_>>())));
            }
            if must_publish && !changed {
                return Err(mk("C13", "C13.not_published", format!("n{p}: live set or a live member's max version changed but nothing was published")));
            }
        }
        // abstract state for coverage
        for (id, c) in &after {
            let owner_mv = self.inc_of.get(id).map(|i| self.incs[*i].max_version).unwrap_or(0);
            let cls = if id == &me { 0 } else if live.contains(id) { 1 } else { 2 };
            let h = super::deliver::order_pattern(&[c.gc, c.mv, owner_mv]) * 8 + cls;
            self.abs_states.insert(h);
        }
        self.check_isolation(p, None)
    }

    fn tick(&mut self, p: usize, peers: &[usize]) -> Result<(), Violation> {
        if !self.running(p) {
            return Ok(());
        }
        self.heartbeat(p)?;
        self.gc(p)?;
        for b in peers {
            self.syn(p, *b)?;
        }
        self.evaluate(p)
    }

    fn tick_select(&mut self, p: usize, rng_seed: u64, mode: u8) -> Result<(), Violation> {
        if !self.running(p) {
            return Ok(());
        }
        let node = self.nodes[p].as_ref().unwrap();
        let me = self.incs[node.inc].rid.clone();
        let mut peers: Vec<SocketAddr> = node.chit.node_states().keys().filter(|id| **id != me).map(|id| id.gossip_advertise_addr).collect();
        let mut live: Vec<SocketAddr> = node.chit.live_nodes().filter(|id| **id != me).map(|id| id.gossip_advertise_addr).collect();
        let mut dead: Vec<SocketAddr> = node.chit.dead_nodes().map(|id| id.gossip_advertise_addr).collect();
        let mut seeds: Vec<SocketAddr> = node.chit.seed_nodes().into_iter().filter(|a| *a != me.gossip_advertise_addr).collect();
        for v in [&mut peers, &mut live, &mut dead, &mut seeds] {
            v.sort();
            v.dedup();
        }
        let sel = crate::select::run_selection(rng_seed, mode, &peers, &live, &dead, &seeds);
        let (nodes, dead_pick, seed_pick) = match sel {
            Ok(x) => x,
            Err(pm) => return Err(self.viol("C17", "C17.panic", format!("peer selection panicked: {pm}"))),
        };
        if self.en.contains("C17") {
            self.nontrivial.insert("C17".into());
            if let Err(e) = crate::select::check_selection(&peers, &live, &dead, &seeds, &nodes, dead_pick, seed_pick) {
                return Err(self.viol("C17", &e.0, format!("n{p}: {}", e.1)));
            }
        }
        self.stats.inc(&format!("select_pools_l{}_d{}_s{}", live.len().min(3), dead.len().min(3), seeds.len().min(2)));
        let mut targets: Vec<usize> = Vec::new();
        for a in nodes.iter().chain(dead_pick.iter()).chain(seed_pick.iter()) {
            if let Some(q) = (0..self.cfg.n).find(|q| addr_of(&self.cfg, *q) == *a) {
                targets.push(q);
            }
        }
        self.tick(p, &targets)
    }

    fn catchup(&mut self, p: usize, member: usize, q: usize, claim_collected: bool) -> Result<(), Violation> {
        if !self.running(p) || !self.running(q) || p == q || member >= self.incs.len() {
            return Ok(());
        }
        let x = self.incs[member].id.clone();
        let xr = self.incs[member].rid.clone();
        if self.nodes[p].as_ref().unwrap().inc == member {
            return Ok(());
        }
        let src = self.nodes[q].as_ref().unwrap();
        let Some(src_ns) = src.chit.node_state(&xr) else { return Ok(()) };
        let kvs: Vec<(String, VersionedValue)> = src_ns.key_values_including_deleted().map(|(k, v)| (k.to_string(), v.clone())).collect();
        let (smv, sgc) = (src_ns.max_version(), if claim_collected { src_ns.max_version() } else { src_ns.last_gc_version() });
        let src_taint: HashSet<(String, u64)> = src.taint.iter().filter(|t| t.0 == x).map(|t| (t.1.clone(), t.2)).collect();
        let src_marks: BTreeMap<String, (u64, u64)> = src.marks.iter().filter(|(k, _)| k.0 == x).map(|(k, v)| (k.1.clone(), *v)).collect();
        let supplied: BTreeMap<String, u64> = kvs.iter().map(|(k, v)| (k.clone(), v.version)).collect();
        let before = self.nodes[p].as_ref().unwrap().view.clone();
        let node = self.nodes[p].as_mut().unwrap();
        node.calls.lock().unwrap().clear();
        let live_before: HashSet<Id> = node.chit.live_nodes().map(Id::from_real).collect();
        let was_removed = node.removed_hb.contains_key(&x);
        let cb_before = node.cb.load(Ordering::SeqCst);
        let res = {
            let _g = self.rt.enter();
            guarded(|| node.chit.reset_node_state_if_update(&xr, kvs.into_iter(), smv, sgc))
        };
        let b = before.get(&x).cloned();
        if let Err(pm) = res {
            return Err(self.viol(
                "C18",
                "C18.panic",
                format!("catch-up of {} on n{p} (copy {:?}) from n{q} (gc {sgc}, max {smv}) panicked: {pm}", x.short(), b.as_ref().map(|c| (c.gc, c.mv))),
            ));
        }
        self.stats.inc("catchup_calls");
        let (_, after) = self.refresh_view(p);
        let a = after.get(&x).cloned();
        let node = self.nodes[p].as_mut().unwrap();
        if self.en.contains("C18") {
            self.nontrivial.insert("C18".into());
            let step = self.step;
            let mk = |code: &str, detail: String| Violation { property: "C18".into(), code: code.into(), step, detail, finding: String::new() };
            if was_removed && b.is_none() && a.is_some() {
                return Err(mk("C18.recreated", format!("n{p} re-created removed member {} through catch-up", x.short())));
            }
            let bb = b.clone().unwrap_or_default();
            if let Some(a) = &a {
                if let Some((k, e)) = a.entries.iter().find(|(_, e)| e.version > a.mv) {
                    return Err(mk("C18.corrupt", format!("n{p} copy of {} holds {k:?}@{} above its max version {} after catch-up", x.short(), e.version, a.mv)));
                }
                if (a.gc, a.mv) < (bb.gc, bb.mv) {
                    return Err(mk("C18.regressed", format!("n{p} copy of {}: ({}, {}) -> ({}, {})", x.short(), bb.gc, bb.mv, a.gc, a.mv)));
                }
                let unchanged = a.entries == bb.entries && (a.gc, a.mv) == (bb.gc, bb.mv);
                if !unchanged {
                    let want: BTreeMap<String, u64> = supplied.iter().map(|(k, v)| (k.clone(), (*v).max(bb.entries.get(k).map(|e| e.version).unwrap_or(0)))).collect();
                    let got: BTreeMap<String, u64> = a.entries.iter().map(|(k, e)| (k.clone(), e.version)).collect();
                    if got != want {
                        return Err(mk("C18.neither", format!("n{p} copy of {} is neither unchanged nor the supplied key set: {} keys, supplied {}", x.short(), got.len(), want.len())));
                    }
                    self.stats.inc("probe_catchup_replaced");
                }
            } else if b.is_some() {
                return Err(mk("C18.vanished", format!("n{p} lost {} through catch-up", x.short())));
            }
            let live_after: HashSet<Id> = node.chit.live_nodes().map(Id::from_real).collect();
            if live_after != live_before {
                return Err(mk("C18.live_changed", format!("n{p} live set changed by catch-up")));
            }
            if node.cb.load(Ordering::SeqCst) != cb_before {
                return Err(mk("C18.callback", format!("catch-up entry point invoked the catch-up callback")));
            }
        }
        // models: observation record for a newly created state, taint, marks
        if b.is_none() && a.is_some() {
            node.obs.insert(x.clone(), ObsModel::default());
        }
        if let Some(a) = &a {
            let bb = b.clone().unwrap_or_default();
            if a.entries != bb.entries || a.gc != bb.gc {
                node.taint.retain(|t| t.0 != x);
                node.c02_ignore.retain(|t| t.0 != x);
                for (k, e) in &a.entries {
                    if src_taint.contains(&(k.clone(), e.version)) {
                        node.taint.insert((x.clone(), k.clone(), e.version));
                    }
                    let changed = bb.entries.get(k).map(|be| be.version != e.version).unwrap_or(true);
                    if e.kind != 0 && changed {
                        if let Some(m) = src_marks.get(k) {
                            node.marks.insert((x.clone(), k.clone()), *m);
                        }
                    } else if e.kind == 0 {
                        node.marks.remove(&(x.clone(), k.clone()));
                    }
                }
                for k in bb.entries.keys() {
                    if !a.entries.contains_key(k) {
                        node.marks.remove(&(x.clone(), k.clone()));
                    }
                }
            }
            if self.en.contains("C15") {
                let mut expected: Vec<Call> = Vec::new();
                for (k, e) in &a.entries {
                    let changed = bb.entries.get(k).map(|be| be.version != e.version).unwrap_or(true);
                    if changed && e.kind != 1 {
                        let value = node.chit.node_state(&xr).and_then(|ns| ns.get_versioned(k)).map(|v| v.value.clone()).unwrap_or_default();
                        for (si, sub) in node.subs.iter().enumerate() {
                            if sub.active {
                                if let Some(stripped) = k.strip_prefix(sub.prefix.as_str()) {
                                    expected.push((si, stripped.to_string(), value.clone(), x.clone()));
                                }
                            }
                        }
                    }
                }
                self.compare_calls(p, expected, "catch-up")?;
            }
        }
        self.check_copies(p, false)
    }

    fn inject(&mut self, to: usize, bytes: Vec<u8>) -> Result<(), Violation> {
        if !self.running(to) {
            return Ok(());
        }
        self.stats.inc("fault_hostile_datagram");
        let msg = crate::codec::decode(&bytes).map(|x| x.0).unwrap_or(crate::codec::Msg::BadCluster);
        self.flight_seq += 1;
        let inc = self.nodes[to].as_ref().unwrap().inc;
        self.flights.push(Flight {
            seq: self.flight_seq,
            from: to,
            from_inc: inc,
            to,
            bytes: std::sync::Arc::new(bytes),
            msg: std::sync::Arc::new(msg),
            answers: None,
            answers_inc: inc,
            taint: Default::default(),
            hostile: true,
        });
        let fi = self.flights.len() - 1;
        self.deliver_idx(fi, false)?;
        // follow-up: a well-formed SYN with an empty digest makes the victim serialise everything it
        // now holds, so state poisoned by the datagram above shows at once
        if !self.running(to) {
            return Ok(());
        }
        let cluster = self.cfg.cluster_ids[self.cluster_now[to]].clone();
        let syn = crate::codec::Msg::Syn { digest: vec![], cluster };
        let bytes = crate::codec::encode(&syn, crate::codec::BlockPlan::Auto { size: 16_384 });
        self.flight_seq += 1;
        self.flights.push(Flight {
            seq: self.flight_seq,
            from: to,
            from_inc: inc,
            to,
            bytes: std::sync::Arc::new(bytes),
            msg: std::sync::Arc::new(syn),
            answers: None,
            answers_inc: inc,
            taint: Default::default(),
            hostile: true,
        });
        let fi = self.flights.len() - 1;
        self.deliver_idx(fi, false).map(|_| ())
    }
}
