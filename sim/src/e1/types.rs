//! E1 configuration and command language (replay files are lists of these).

use serde::{Deserialize, Serialize};

use crate::common::ValSpec;

#[derive(Clone, Debug, Serialize, Deserialize, PartialEq)]
pub struct E1Config {
    /// number of positions (addresses)
    pub n: usize,
    /// cluster index per position
    pub cluster_of: Vec<usize>,
    pub cluster_ids: Vec<String>,
    /// node_id per position
    pub node_ids: Vec<String>,
    pub ipv6: bool,
    /// 0: plain (per `ipv6`), 1: IPv4-mapped IPv6 (::ffff:a.b.c.d), 2: IPv6 with all groups set, 3: IPv4 edge values
    #[serde(default)]
    pub addr_kind: u8,
    /// tombstone grace per position (clock skew modelled as scaled durations)
    pub grace_ms: Vec<u64>,
    pub dead_grace_ms: Vec<u64>,
    pub phi: f64,
    pub window: usize,
    pub max_interval_ms: Vec<u64>,
    pub initial_interval_ms: Vec<u64>,
    pub gossip_interval_ms: u64,
    pub predicate: bool,
    pub shuffle_seed: u64,
    pub hostile: bool,
    /// properties whose oracles are active in this run
    pub enabled: Vec<String>,
    /// positions that are seeds (C17 facade)
    pub seeds: Vec<usize>,
}

#[derive(Clone, Copy, Debug, Serialize, Deserialize, PartialEq, Eq)]
pub enum WriteOp {
    Set,
    SetTtl,
    Delete,
    DeleteTtl,
}

#[derive(Clone, Debug, Serialize, Deserialize, PartialEq)]
pub enum Cmd {
    Advance { ms: u64 },
    Write { p: usize, op: WriteOp, key: String, val: ValSpec },
    /// a local set during which another application thread drops the handle of subscription `sub`:
    /// the drop is started from inside the first callback the write triggers (the registry is locked
    /// for reading then) and has to take effect once the write is over
    WriteDropping { p: usize, key: String, val: ValSpec, sub: usize },
    Syn { a: usize, b: usize },
    /// deliver the idx-th oldest datagram in flight on link from->to; keep = deliver a duplicate
    Deliver { from: usize, to: usize, idx: usize, keep: bool },
    Drop { from: usize, to: usize, idx: usize },
    Heartbeat { p: usize },
    Gc { p: usize },
    Evaluate { p: usize },
    /// heartbeat, gc, one SYN per peer, evaluate (the order in Server::gossip_multiple)
    Tick { p: usize, peers: Vec<usize> },
    /// tick whose peers come from the real selection function, fed by a generator with this seed
    /// (mode 0: seeded stream, 1: all-zero draws, 2: all-max draws, 3: mid draws)
    TickSelect { p: usize, rng_seed: u64, mode: u8 },
    /// group id per position; datagrams between different groups are dropped at send time
    Partition { groups: Vec<u8> },
    Heal,
    Crash { p: usize },
    Restart { p: usize },
    /// the address of the stopped node p is taken over by the other cluster: the next node started
    /// there belongs to it (two-cluster runs only)
    Rehome { p: usize },
    Join { p: usize },
    /// panicky: the callback panics whenever it is called from a local write of the application
    /// (a fault of user code; the node has to stay consistent)
    Subscribe { p: usize, prefix: String, #[serde(default)] panicky: bool },
    Unsubscribe { p: usize, sub: usize },
    Forever { p: usize, sub: usize },
    /// the application drops (attach false) or re-opens (attach true) its receiver of p's
    /// live-members watch channel; without one the harness reads the channel through a receiver it
    /// opens after each evaluation and drops at once
    Watch { p: usize, attach: bool },
    /// p copies q's copy of incarnation `member` through reset_node_state_if_update
    /// claim_collected: the application supplies q's copy with the watermark raised to its max
    /// version (an inconsistent fetched state, which the catch-up entry point has to cope with);
    /// only generated for runs whose oracles do not depend on honest watermarks
    Catchup { p: usize, member: usize, q: usize, #[serde(default)] claim_collected: bool },
    /// hostile bytes delivered to `to` (hex)
    Inject { to: usize, hex: String },
    /// SYN a->b and its replies delivered back to back
    Handshake { a: usize, b: usize },
    /// one loss-free all-pairs round (C01 suffix)
    QuiesceRound,
    /// end of suffix: convergence is required now
    ExpectConverged,
}

impl Cmd {
    pub fn name(&self) -> &'static str {
        match self {
            Cmd::Advance { .. } => "advance",
            Cmd::Write { .. } => "write",
            Cmd::WriteDropping { .. } => "write_while_another_thread_drops_a_handle",
            Cmd::Syn { .. } => "syn",
            Cmd::Deliver { keep: false, .. } => "deliver",
            Cmd::Deliver { keep: true, .. } => "duplicate",
            Cmd::Drop { .. } => "drop",
            Cmd::Heartbeat { .. } => "heartbeat",
            Cmd::Gc { .. } => "gc",
            Cmd::Evaluate { .. } => "evaluate",
            Cmd::Tick { .. } => "tick",
            Cmd::TickSelect { .. } => "tick_select",
            Cmd::Partition { .. } => "partition",
            Cmd::Heal => "heal",
            Cmd::Crash { .. } => "crash",
            Cmd::Restart { .. } => "restart",
            Cmd::Rehome { .. } => "rehome",
            Cmd::Join { .. } => "join",
            Cmd::Subscribe { .. } => "subscribe",
            Cmd::Unsubscribe { .. } => "unsubscribe",
            Cmd::Forever { .. } => "forever",
            Cmd::Watch { attach: true, .. } => "watch_attach",
            Cmd::Watch { attach: false, .. } => "watch_detach",
            Cmd::Catchup { .. } => "catchup",
            Cmd::Inject { .. } => "inject",
            Cmd::Handshake { .. } => "handshake",
            Cmd::QuiesceRound => "quiesce_round",
            Cmd::ExpectConverged => "expect_converged",
        }
    }
}

pub fn hex(bytes: &[u8]) -> String {
    let mut s = String::with_capacity(bytes.len() * 2);
    for b in bytes {
        s.push_str(&format!("{b:02x}"));
    }
    s
}

pub fn unhex(s: &str) -> Vec<u8> {
    (0..s.len() / 2).filter_map(|i| u8::from_str_radix(&s[2 * i..2 * i + 2], 16).ok()).collect()
}
