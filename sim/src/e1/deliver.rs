//! Delivery of one datagram to a node, with the per-message oracles.

use std::collections::{BTreeMap, HashSet};
use std::sync::atomic::Ordering;
use std::sync::Arc;

use chitchat::{ChitchatMessage, Deserializable};

use super::world::*;
use crate::codec::{self, Id, Msg, NodeDelta};
use crate::common::{guarded, Violation};

pub struct Delivered {
    pub reply_sent: bool,
}

impl World {
    /// Delivers flight `fi` (index into self.flights). keep = leave the original in flight.
    pub fn deliver_idx(&mut self, fi: usize, keep: bool) -> Result<Delivered, Violation> {
        let fl = if keep {
            self.stats.inc("fault_duplicate");
            let f = &self.flights[fi];
            Flight {
                seq: f.seq,
                from: f.from,
                from_inc: f.from_inc,
                to: f.to,
                bytes: f.bytes.clone(),
                msg: f.msg.clone(),
                answers: f.answers.clone(),
                answers_inc: f.answers_inc,
                taint: f.taint.clone(),
                hostile: f.hostile,
            }
        } else {
            self.flights.remove(fi)
        };
        let to = fl.to;
        if !self.running(to) {
            self.stats.inc("fault_delivered_to_down_node");
            return Ok(Delivered { reply_sent: false });
        }
        self.stats.inc("delivered");
        let hostile = fl.hostile;
        let mut cur = &fl.bytes[..];
        let real = match guarded(|| ChitchatMessage::deserialize(&mut cur)) {
            Err(p) => return Err(self.viol("C09", "C09.decode_panic", format!("decoder panicked: {p}"))),
            Ok(Err(e)) => {
                if hostile {
                    self.stats.inc("hostile_rejected");
                    return Ok(Delivered { reply_sent: false });
                }
                return Err(self.viol("C08", "C08.decode", format!("real decoder rejects honest datagram: {e}")));
            }
            Ok(Ok(m)) => m,
        };
        if hostile {
            self.stats.inc("hostile_decoded");
            self.nontrivial.insert("C09".into());
        }
        let my_inc = self.nodes[to].as_ref().unwrap().inc;
        let my_id = self.incs[my_inc].id.clone();
        if self.incs[my_inc].pos == to && fl.answers.is_some() && fl.answers_inc != my_inc {
            self.stats.inc("probe_reply_reached_later_incarnation");
        }
        let before = self.nodes[to].as_ref().unwrap().view.clone();
        let cb_before = self.nodes[to].as_ref().unwrap().cb.load(Ordering::SeqCst);
        self.nodes[to].as_ref().unwrap().calls.lock().unwrap().clear();
        let foreign = match &*fl.msg {
            Msg::Syn { cluster, .. } => cluster != &self.cfg.cluster_ids[self.cluster_now[to]],
            _ => false,
        };
        chitchat::verif::set_shuffle_seed(crate::rng::mix(self.cfg.shuffle_seed, self.step as u64));
        let reply = {
            let _g = self.rt.enter();
            let node = self.nodes[to].as_mut().unwrap();
            guarded(|| node.chit.verif_process_message(real))
        };
        let reply = match reply {
            Ok(r) => r,
            Err(p) => {
                let (prop, code) = if hostile { ("C09", "C09.panic") } else { ("C04", "C04.panic") };
                return Err(self.viol(prop, code, format!("process_message({}) panicked on n{to}: {p}", fl.msg.kind())));
            }
        };
        self.incs[my_inc].hb += 1;
        let (_, after) = self.refresh_view(to);
        let cb_after = self.nodes[to].as_ref().unwrap().cb.load(Ordering::SeqCst);
        self.trace.u(0xD0);
        self.trace.u(to as u64);
        for (id, c) in &after {
            self.trace.u(id.generation ^ id.addr.port() as u64);
            self.trace.u(c.gc);
            self.trace.u(c.mv);
            self.trace.u(c.hb);
        }

        if self.keep_log {
            let fr = |v: &NodeView| v.iter().map(|(id, c)| format!("{}:({},{},hb{})", id.short(), c.gc, c.mv, c.hb)).collect::<Vec<_>>().join(" ");
            let ds = fl.msg.ops().and_then(|o| codec::group_ops(o)).map(|ds| ds.iter().map(|d| format!("{}[gc{} from{} max{} kvs{}{}]", d.id.short(), d.gc, d.from, d.max, d.kvs.len(), if d.has_setmax { " setmax" } else { "" })).collect::<Vec<_>>().join(" ")).unwrap_or_default();
            let dg = fl.msg.digest().map(|d| d.iter().map(|(id, nd)| format!("{}:({},{},hb{})", id.short(), nd.gc, nd.max, nd.heartbeat)).collect::<Vec<_>>().join(" ")).unwrap_or_default();
            let (kind, from) = (fl.msg.kind(), fl.from);
            let (b, a) = (fr(&before), fr(&after));
            self.note(|| format!("  {kind} n{from}->n{to} digest[{dg}] delta[{ds}]\n      before {b}\n      after  {a}"));
        }
        // ---- members reset / created
        let mut reset_members: HashSet<Id> = HashSet::new();
        for (id, a) in &after {
            let b_gc = before.get(id).map(|c| c.gc).unwrap_or(0);
            if a.gc > b_gc {
                reset_members.insert(id.clone());
            }
        }
        if !reset_members.is_empty() {
            self.stats.add("probe_reset_applied", reset_members.len() as u64);
            if reset_members.len() > 1 {
                self.stats.inc("probe_multi_reset_message");
            }
            for id in &reset_members {
                match before.get(id) {
                    Some(b) => {
                        if !b.entries.is_empty() {
                            self.stats.inc("probe_reset_of_nonempty_copy");
                        }
                    }
                    None => self.stats.inc("probe_reset_of_new_member"),
                }
            }
        }

        // ---- C04 (b): frontiers and key versions only move forward
        if self.on("C04") || self.on("C09") {
            let prop = if hostile { "C09" } else { "C04" };
            if self.on(prop) {
                self.nontrivial.insert(prop.into());
                for (id, b) in &before {
                    let Some(a) = after.get(id) else {
                        return Err(self.viol(prop, &format!("{prop}.member_vanished"), format!("n{to} lost member {} while processing a message", id.short())));
                    };
                    if (a.gc, a.mv) < (b.gc, b.mv) {
                        return Err(self.viol(
                            prop,
                            &format!("{prop}.frontier_decreased"),
                            format!("n{to} copy of {}: ({}, {}) -> ({}, {})", id.short(), b.gc, b.mv, a.gc, a.mv),
                        ));
                    }
                    if a.gc == b.gc {
                        for (k, be) in &b.entries {
                            match a.entries.get(k) {
                                Some(ae) if ae.version < be.version => {
                                    return Err(self.viol(prop, &format!("{prop}.key_version_decreased"), format!("n{to} {}:{k:?} {} -> {}", id.short(), be.version, ae.version)));
                                }
                                None => {
                                    return Err(self.viol(prop, &format!("{prop}.key_vanished"), format!("n{to} {}:{k:?}@{} vanished without a reset", id.short(), be.version)));
                                }
                                _ => {}
                            }
                        }
                    }
                }
            }
        }
        if hostile {
            // live/dead invariants after hostile input (C09)
            if self.on("C09") {
                let node = self.nodes[to].as_ref().unwrap();
                let live: HashSet<Id> = node.chit.live_nodes().map(Id::from_real).collect();
                let dead: HashSet<Id> = node.chit.dead_nodes().map(Id::from_real).collect();
                if live.intersection(&dead).next().is_some() || !live.contains(&my_id) || dead.contains(&my_id) {
                    return Err(self.viol("C09", "C09.live_dead", format!("n{to} live/dead invariant broken after hostile datagram")));
                }
            }
            // hostile digests may create members and heartbeats: keep the observation model in step
            let dh: BTreeMap<&Id, u64> = fl.msg.digest().map(|d| d.iter().map(|(id, nd)| (id, nd.heartbeat)).collect()).unwrap_or_default();
            self.update_obs(to, &before, &dh, &after);
            if let Some(reply) = reply {
                let bytes = match guarded(|| chitchat::Serializable::serialize_to_vec(&reply)) {
                    Ok(b) => b,
                    Err(pm) => return Err(self.viol("C09", "C09.panic", format!("serializing the reply to a hostile datagram panicked on n{to}: {pm}"))),
                };
                if self.on("C09") && bytes.len() > codec::MAX_DATAGRAM {
                    let own_digest = codec::decode(&bytes).ok().and_then(|(m, _, _)| m.digest().map(|d| codec::digest_len(d))).unwrap_or(0);
                    if own_digest + 104 <= codec::MAX_DATAGRAM {
                        return Err(self.viol("C09", "C09.reply_size", format!("reply of {} bytes to hostile datagram", bytes.len())));
                    }
                }
            }
            return Ok(Delivered { reply_sent: false });
        }

        // ---- C05: own namespace untouched, heartbeat +1
        if self.on("C05") {
            self.nontrivial.insert("C05".into());
            let b = before.get(&my_id).cloned().unwrap_or_default();
            let a = after.get(&my_id).cloned().unwrap_or_default();
            if a.entries != b.entries || a.gc != b.gc || a.mv != b.mv {
                return Err(self.viol(
                    "C05",
                    "C05.own_state_changed",
                    format!("n{to} own state changed by a {} from n{}: ({}, {}, {} keys) -> ({}, {}, {} keys)", fl.msg.kind(), fl.from, b.gc, b.mv, b.entries.len(), a.gc, a.mv, a.entries.len()),
                ));
            }
            if a.hb != b.hb + 1 {
                return Err(self.viol("C05", "C05.own_heartbeat", format!("n{to} own heartbeat {} -> {} across one message", b.hb, a.hb)));
            }
            if let Some(ops) = fl.msg.ops() {
                if ops.iter().any(|op| matches!(op, codec::Op::Node { id, .. } if id == &my_id)) {
                    self.stats.inc("probe_delta_about_receiver_itself");
                }
            }
        }

        // ---- C16: foreign SYN gets BadCluster only, nothing learned
        if foreign {
            self.stats.inc("probe_foreign_syn");
            if self.on("C16") {
                self.nontrivial.insert("C16".into());
                let is_bad = match &reply {
                    Some(r) => matches!(r, ChitchatMessage::BadCluster),
                    None => false,
                };
                if !is_bad {
                    return Err(self.viol("C16", "C16.reply", format!("n{to} answered a foreign SYN with something other than BadCluster")));
                }
                let mut b2 = before.clone();
                if let Some(c) = b2.get_mut(&my_id) {
                    c.hb += 1;
                }
                if b2 != after {
                    return Err(self.viol("C16", "C16.learned", format!("n{to} state changed by a foreign SYN")));
                }
            }
        }

        // ---- C20: catch-up callback iff some copy was reset
        if self.on("C20") {
            if fl.msg.ops().is_some() {
                self.nontrivial.insert("C20".into());
            }
            // what counts as a reset comes from the statement (message + state before), not from
            // the watermark having moved
            let stated = fl.msg.ops().and_then(|ops| stated_resets(ops, &before, &after)).map(|v| v.len()).unwrap_or(reset_members.len());
            if stated != reset_members.len() {
                self.stats.inc("probe_watermark_moved_without_stated_reset");
            }
            let expected = if stated == 0 { 0 } else { 1 };
            if cb_after - cb_before != expected {
                return Err(self.viol(
                    "C20",
                    "C20.count",
                    format!("n{to}: {} callback(s) for a {} that reset {} copies", cb_after - cb_before, fl.msg.kind(), stated),
                ));
            }
        }

        // ---- C12: re-creation only on a strictly higher heartbeat
        let digest_hb: BTreeMap<&Id, u64> = fl.msg.digest().map(|d| d.iter().map(|(id, nd)| (id, nd.heartbeat)).collect()).unwrap_or_default();
        for id in after.keys() {
            if before.contains_key(id) {
                continue;
            }
            let remembered = self.nodes[to].as_mut().unwrap().removed_hb.remove(id);
            if let Some(hb) = remembered {
                let got = digest_hb.get(id).copied();
                self.stats.inc("probe_member_recreated");
                if self.on("C12") {
                    self.nontrivial.insert("C12".into());
                    if got.map(|g| g <= hb).unwrap_or(true) {
                        return Err(self.viol("C12", "C12.revived", format!("n{to} re-created {} from heartbeat {:?}, remembered {}", id.short(), got, hb)));
                    }
                }
            }
            if !digest_hb.contains_key(id) && self.on("C12") {
                return Err(self.viol("C12", "C12.created_without_digest", format!("n{to} created {} without a digest entry", id.short())));
            }
        }
        for (id, hb) in &digest_hb {
            if !after.contains_key(*id) {
                if let Some(rem) = self.nodes[to].as_ref().unwrap().removed_hb.get(*id) {
                    if *hb <= *rem {
                        self.stats.inc("probe_recreate_refused");
                        self.nontrivial.insert("C12".into());
                    }
                }
            }
        }

        self.update_obs(to, &before, &digest_hb, &after);

        // ---- per member delta: C14, taint, marks
        let deltas: Vec<NodeDelta> = fl.msg.ops().and_then(|ops| codec::group_ops(ops)).unwrap_or_default();
        for nd in &deltas {
            let id = &nd.id;
            let b = before.get(id).map(|c| (c.gc, c.mv)).unwrap_or((0, 0));
            let Some(a) = after.get(id).map(|c| (c.gc, c.mv)) else { continue };
            let nonempty = !nd.kvs.is_empty() || nd.has_setmax;
            // outcome classification for coverage
            let outcome = if a.0 > b.0 { 2u64 } else if a.1 > b.1 { 1 } else { 0 };
            if outcome == 0 && nonempty {
                if nd.from > b.1 {
                    self.stats.inc("probe_reject_from_future");
                } else {
                    self.stats.inc("probe_reject_other");
                }
            }
            if nd.has_setmax && outcome > 0 {
                self.stats.inc("probe_setmaxversion_applied");
            }
            let pat = order_pattern(&[nd.gc, nd.max, b.0, b.1, nd.from]);
            self.abs_transitions.insert(pat * 4 + outcome);
            if let Some(tag) = &fl.answers {
                let tagged = tag.get(id).copied().unwrap_or((0, 0));
                let unchanged = tagged == b && fl.answers_inc == my_inc;
                if !unchanged {
                    self.stats.inc("probe_stale_delta_delivery");
                    if b.0 > tagged.0 {
                        self.stats.inc("probe_stale_after_reset_delivery");
                    }
                }
                if unchanged && self.on("C14") {
                    self.nontrivial.insert("C14".into());
                    let reset_expected = b.0 < nd.gc && b.1 < nd.gc;
                    if reset_expected {
                        if nd.from != 0 {
                            return Err(self.viol("C14", "C14.from_nonzero_on_reset", format!("n{to} copy of {} at ({}, {}), sender watermark {}: delta starts at {}", id.short(), b.0, b.1, nd.gc, nd.from)));
                        }
                        if a.0 != nd.gc {
                            return Err(self.viol("C14", "C14.no_wipe", format!("n{to} copy of {} at ({}, {}) not wiped by a reset delta (gc {}): after ({}, {})", id.short(), b.0, b.1, nd.gc, a.0, a.1)));
                        }
                    } else {
                        if nd.from != b.1 {
                            return Err(self.viol("C14", "C14.from", format!("n{to} copy of {} at ({}, {}), sender watermark {}: delta starts at {} instead of {}", id.short(), b.0, b.1, nd.gc, nd.from, b.1)));
                        }
                        if a.0 != b.0 {
                            return Err(self.viol("C14", "C14.needless_wipe", format!("n{to} copy of {} at ({}, {}) wiped by delta (gc {}, from {})", id.short(), b.0, b.1, nd.gc, nd.from)));
                        }
                    }
                    if nonempty && a <= b {
                        return Err(self.viol(
                            "C14",
                            "C14.refused",
                            format!("n{to} unchanged copy of {} at ({}, {}) refused delta (gc {}, from {}, max {}, {} kvs)", id.short(), b.0, b.1, nd.gc, nd.from, nd.max, nd.kvs.len()),
                        ));
                    }
                }
            }
            // taint (KF-1 classification)
            let node = self.nodes[to].as_mut().unwrap();
            if a.0 == b.0 && a.1 > b.1 {
                for kv in &nd.kvs {
                    if kv.version > b.1 {
                        let direct = nd.gc < b.0 && kv.version <= b.0 && b.1 < b.0;
                        let inherited = fl.taint.contains(&(id.clone(), kv.key.clone(), kv.version));
                        if direct || inherited {
                            if direct {
                                self.stats.inc("probe_taint_created");
                            }
                            node.taint.insert((id.clone(), kv.key.clone(), kv.version));
                        }
                    }
                }
            } else if a.0 > b.0 {
                node.taint.retain(|t| &t.0 != id);
                node.c02_ignore.retain(|t| &t.0 != id);
                for kv in &nd.kvs {
                    if fl.taint.contains(&(id.clone(), kv.key.clone(), kv.version)) {
                        node.taint.insert((id.clone(), kv.key.clone(), kv.version));
                    }
                }
            }
        }
        self.update_marks(to, &before, &after, &reset_members);

        // ---- C15: listener calls
        if self.on("C15") {
            let mut expected: Vec<Call> = Vec::new();
            let node = self.nodes[to].as_ref().unwrap();
            for (id, a) in &after {
                if id == &my_id {
                    continue;
                }
                let was_reset = reset_members.contains(id);
                for (k, e) in &a.entries {
                    let changed = was_reset || before.get(id).and_then(|c| c.entries.get(k)).map(|be| be.version != e.version).unwrap_or(true);
                    if changed && e.kind != 1 {
                        let value = node.chit.node_state(&id.to_real()).and_then(|ns| ns.get_versioned(k)).map(|v| v.value.clone()).unwrap_or_default();
                        for (si, sub) in node.subs.iter().enumerate() {
                            if sub.active {
                                if let Some(stripped) = k.strip_prefix(sub.prefix.as_str()) {
                                    expected.push((si, stripped.to_string(), value.clone(), id.clone()));
                                }
                            }
                        }
                    }
                }
            }
            self.compare_calls(to, expected, "gossip")?;
        }

        // ---- the reply
        let mut reply_sent = false;
        if let Some(reply) = reply {
            let answers: BTreeMap<Id, (u64, u64)> =
                fl.msg.digest().map(|d| d.iter().map(|(id, nd)| (id.clone(), (nd.gc, nd.max))).collect()).unwrap_or_default();
            let answers = Arc::new(answers);
            let sent = self.emit(to, fl.from, &reply, Some(answers.clone()), fl.from_inc)?;
            if let Some(m) = &sent {
                reply_sent = true;
                self.check_reply(to, m, &answers, &after)?;
            }
        }

        self.check_copies(to, false)?;
        let via = fl.msg.kind();
        self.check_isolation(to, Some(via))?;
        Ok(Delivered { reply_sent })
    }

    /// Heartbeat observation model (C10/C11). A digest value is an observation when it exceeds every
    /// value this node has seen for the member since it created the copy - whatever the node has
    /// on record at the moment. (An earlier version compared with the stored heartbeat and thereby
    /// inherited defect F-8: a gossip reset zeroed the record and the model with it.)
    pub fn update_obs(&mut self, p: usize, before: &NodeView, digest: &BTreeMap<&Id, u64>, after: &NodeView) {
        let now = self.now_ms;
        let node = self.nodes[p].as_mut().unwrap();
        for (id, hb) in digest {
            if !after.contains_key(*id) {
                continue;
            }
            let b_hb = before.get(*id).map(|c| c.hb);
            if b_hb.is_none() {
                node.obs.insert((*id).clone(), ObsModel::default());
            }
            let o = node.obs.entry((*id).clone()).or_default();
            if *hb > o.max_seen {
                o.max_seen = *hb;
                o.count += 1;
                o.last_ms = now;
            }
        }
    }

    /// Receipt times of deletion / TTL marks (C06 replica side).
    pub fn update_marks(&mut self, p: usize, before: &NodeView, after: &NodeView, reset: &HashSet<Id>) {
        let now = self.now_ms;
        let node = self.nodes[p].as_mut().unwrap();
        for (id, a) in after {
            let b = before.get(id);
            let was_reset = reset.contains(id);
            if was_reset {
                node.marks.retain(|k, _| &k.0 != id);
                node.verified.retain(|k| &k.0 != id);
            }
            for (k, e) in &a.entries {
                if e.kind == 0 {
                    node.marks.remove(&(id.clone(), k.clone()));
                    continue;
                }
                let changed = was_reset || b.and_then(|c| c.entries.get(k)).map(|be| be.version != e.version).unwrap_or(true);
                if changed {
                    node.marks.insert((id.clone(), k.clone()), (e.version, now));
                }
            }
            if let Some(b) = b {
                for k in b.entries.keys() {
                    if !a.entries.contains_key(k) {
                        node.marks.remove(&(id.clone(), k.clone()));
                    }
                }
            }
        }
    }

    pub fn compare_calls(&mut self, p: usize, mut expected: Vec<Call>, what: &str) -> Result<(), Violation> {
        let mut got: Vec<Call> = std::mem::take(&mut *self.nodes[p].as_ref().unwrap().calls.lock().unwrap());
        got.sort();
        expected.sort();
        if !expected.is_empty() {
            self.nontrivial.insert("C15".into());
            self.stats.add("listener_calls_checked", expected.len() as u64);
        }
        if got != expected {
            let show = |v: &Vec<Call>| v.iter().take(6).map(|c| format!("(sub{} {:?} len{} {})", c.0, c.1, c.2.len(), c.3.short())).collect::<Vec<_>>().join(" ");
            return Err(self.viol(
                "C15",
                "C15.calls",
                format!("n{p} {what}: {} call(s) observed, {} expected; got [{}] expected [{}]", got.len(), expected.len(), show(&got), show(&expected)),
            ));
        }
        Ok(())
    }

    /// C16 invariant: nothing about a member of another cluster anywhere on node p.
    ///
    /// Known finding KF-3: SYN-ACK and ACK carry no cluster id. When the node at an address is
    /// replaced by a node of the other cluster (Cmd::Rehome), a SYN-ACK or ACK still in flight to
    /// the previous occupant is applied by the new one. A leak is classified as KF-3 when it shows
    /// right after such a message at an address that an incarnation of the leaked member's cluster
    /// has held before, or when the member has already got into this cluster that way (it then
    /// spreads through this cluster's own, legitimate gossip). Any other leak is a violation.
    pub fn check_isolation(&mut self, p: usize, via: Option<&'static str>) -> Result<(), Violation> {
        if !self.on("C16") || self.cfg.cluster_ids.len() < 2 {
            return Ok(());
        }
        let node = self.nodes[p].as_ref().unwrap();
        let mine = self.cluster_now[p];
        let mut ids: Vec<Id> = node.chit.node_states().keys().map(Id::from_real).collect();
        ids.extend(node.chit.live_nodes().map(Id::from_real));
        ids.extend(node.chit.dead_nodes().map(Id::from_real));
        for id in ids {
            if let Some(&oi) = self.inc_of.get(&id) {
                let theirs = self.incs[oi].cluster;
                if theirs != mine {
                    let address_changed_hands = self.incs.iter().any(|i| i.pos == p && i.cluster == theirs);
                    let no_cluster_id = matches!(via, Some("synack") | Some("ack"));
                    if self.kf3_ids[mine].contains(&id) || (address_changed_hands && no_cluster_id) {
                        if self.kf3_ids[mine].insert(id.clone()) {
                            self.stats.inc("known_kf3");
                            if self.known_hits.len() < 4 {
                                self.known_hits.push(format!(
                                    "KF-3 n{p} (cluster {mine}, at an address a node of cluster {theirs} held before) learnt {} of cluster {theirs} from a {} that carries no cluster id",
                                    id.short(),
                                    via.unwrap_or("message")
                                ));
                            }
                        }
                        continue;
                    }
                    return Err(self.viol("C16", "C16.leak", format!("n{p} (cluster {mine}) knows {} of another cluster", id.short())));
                }
            }
        }
        Ok(())
    }
}

/// Encodes the weak ordering among up to 5 values as a small integer (coverage measure).
pub fn order_pattern(vals: &[u64]) -> u64 {
    let mut code = 0u64;
    for i in 0..vals.len() {
        for j in (i + 1)..vals.len() {
            let c = match vals[i].cmp(&vals[j]) {
                std::cmp::Ordering::Less => 0,
                std::cmp::Ordering::Equal => 1,
                std::cmp::Ordering::Greater => 2,
            };
            code = code * 3 + c;
        }
    }
    code
}
