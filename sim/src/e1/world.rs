//! E1 world: real `Chitchat` objects, the simulated wire, the ledger and the small models.

use std::collections::{BTreeMap, HashMap, HashSet};
use std::net::{IpAddr, Ipv4Addr, Ipv6Addr, SocketAddr};
use std::sync::atomic::{AtomicUsize, Ordering};
use std::sync::{Arc, Mutex};
use std::time::Duration;

use chitchat::{
    Chitchat, ChitchatConfig, ChitchatId, ChitchatMessage, DeletionStatus, Deserializable, FailureDetectorConfig,
    ListenerHandle, NodeState, Serializable,
};
use tokio::sync::watch;

use super::types::*;
use crate::codec::{self, Id, Msg};
use crate::common::{Stats, Violation};
use crate::rng::Trace;

#[derive(Clone, Debug, PartialEq)]
pub struct Wr {
    pub key: String,
    pub value: String,
    pub version: u64,
    pub kind: u8,
}

pub struct Inc {
    pub pos: usize,
    /// cluster this incarnation was started in (a position can change hands, see Cmd::Rehome)
    pub cluster: usize,
    pub id: Id,
    pub rid: ChitchatId,
    pub ledger: HashMap<(String, u64), Wr>,
    pub latest: BTreeMap<String, Wr>,
    pub max_version: u64,
    pub hb: u64,
    pub running: bool,
}

#[derive(Clone, Debug, PartialEq, Eq)]
pub struct Entry {
    pub version: u64,
    pub kind: u8,
    pub len: usize,
}

#[derive(Clone, Debug, PartialEq, Eq, Default)]
pub struct CopyView {
    pub gc: u64,
    pub mv: u64,
    pub hb: u64,
    pub entries: BTreeMap<String, Entry>,
}

pub type NodeView = BTreeMap<Id, CopyView>;

/// Members whose copy a message resets *as C14 and C20 state it*: the member delta starts from
/// version 0 and both the receiver's watermark and max version (0 and 0 for a copy only just
/// created by this message) lie below the delta's watermark. Computed from the message and the
/// state before it, never from what the code did: an earlier version of the C20 oracle read
/// "the watermark of the copy moved", which a change that lets incremental updates adopt the
/// sender's watermark turns into a reset the code itself believes in (seeded/C20-12).
/// None when the stream is not one an honest encoder produces.
pub fn stated_resets(ops: &[crate::codec::Op], before: &NodeView, after: &NodeView) -> Option<Vec<Id>> {
    let groups = crate::codec::group_ops(ops)?;
    let mut out = Vec::new();
    for d in groups {
        if !after.contains_key(&d.id) {
            continue; // a member the receiver does not track: the delta is skipped
        }
        let (gc, mv) = before.get(&d.id).map(|c| (c.gc, c.mv)).unwrap_or((0, 0));
        if d.from == 0 && d.gc > gc && d.gc > mv {
            out.push(d.id);
        }
    }
    Some(out)
}

pub struct Sub {
    pub prefix: String,
    pub handle: Option<ListenerHandle>,
    pub active: bool,
}

#[derive(Clone, Debug, Default)]
pub struct ObsModel {
    /// record-setting heartbeat values seen in digests since the copy was created
    pub count: u64,
    pub last_ms: u64,
    /// highest heartbeat seen in any digest since the copy was created: equal and lower values
    /// are replays whatever the node has on record at the moment (a gossip reset zeroes the record)
    pub max_seen: u64,
}

pub type Call = (usize, String, String, Id);

pub struct Node {
    pub chit: Chitchat,
    pub inc: usize,
    pub cb: Arc<AtomicUsize>,
    pub calls: Arc<Mutex<Vec<Call>>>,
    pub subs: Vec<Sub>,
    pub watch_rx: Option<watch::Receiver<BTreeMap<ChitchatId, NodeState>>>,
    pub _seed_tx: watch::Sender<HashSet<SocketAddr>>,
    pub death: HashMap<Id, u64>,
    pub removed_hb: HashMap<Id, u64>,
    pub obs: HashMap<Id, ObsModel>,
    pub marks: HashMap<(Id, String), (u64, u64)>,
    pub taint: HashSet<(Id, String, u64)>,
    pub c02_ignore: HashSet<(Id, String)>,
    pub verified: HashSet<(Id, String, u64)>,
    pub prev_eval_live: Option<BTreeMap<Id, u64>>,
    pub view: NodeView,
}

pub struct Flight {
    pub seq: u64,
    pub from: usize,
    pub from_inc: usize,
    pub to: usize,
    pub bytes: Arc<Vec<u8>>,
    pub msg: Arc<Msg>,
    /// for replies: the digest frontier the delta answers, and whose digest it was
    pub answers: Option<Arc<BTreeMap<Id, (u64, u64)>>>,
    pub answers_inc: usize,
    pub taint: Arc<HashSet<(Id, String, u64)>>,
    pub hostile: bool,
}

pub struct World {
    pub cfg: E1Config,
    pub en: HashSet<String>,
    pub rt: tokio::runtime::Runtime,
    pub now_ms: u64,
    pub step: usize,
    pub incs: Vec<Inc>,
    pub inc_of: HashMap<Id, usize>,
    pub nodes: Vec<Option<Node>>,
    /// last incarnation index per position
    pub last_inc: Vec<Option<usize>>,
    pub flights: Vec<Flight>,
    pub flight_seq: u64,
    pub groups: Option<Vec<u8>>,
    pub stats: Stats,
    pub trace: Trace,
    pub known_hits: Vec<String>,
    /// cluster of the node that runs (or will next be started) at each position
    pub cluster_now: Vec<usize>,
    /// KF-3: per cluster, members of the other cluster that got in through a SYN-ACK or ACK
    /// addressed to a previous occupant of an address (and spread from there)
    pub kf3_ids: Vec<HashSet<Id>>,
    pub abs_states: HashSet<u64>,
    pub abs_transitions: HashSet<u64>,
    pub nontrivial: HashSet<String>,
    pub quiesce_rounds: u64,
    pub quiesce_budget: u64,
    /// KF-2 signature seen during the loss-free suffix (or at a stuck handshake)
    pub hog_seen: bool,
    pub log: Vec<String>,
    pub keep_log: bool,
}

pub fn kind_of(status: &DeletionStatus) -> u8 {
    match status {
        DeletionStatus::Set => 0,
        DeletionStatus::Deleted(_) => 1,
        DeletionStatus::DeleteAfterTtl(_) => 2,
    }
}

pub fn addr_of(cfg: &E1Config, p: usize) -> SocketAddr {
    let port = 7000 + p as u16;
    match cfg.addr_kind {
        1 => SocketAddr::new(IpAddr::V6(Ipv4Addr::new(10, 0, 0, 1 + p as u8).to_ipv6_mapped()), port),
        2 => SocketAddr::new(IpAddr::V6(Ipv6Addr::new(0xfe80, 0xffff, 0x1234, 0xabcd, 0x8000, 0x7fff, 0xff00, 0x100 + p as u16)), port),
        3 => SocketAddr::new(IpAddr::V4(Ipv4Addr::new(255, 255, 255, 250 - p as u8)), if p == 0 { 65_535 } else { p as u16 }),
        // link-local address with a scope id (`fe80::..%3`): legal for a node to advertise, but the
        // scope id is not on the wire (known finding KF-4; C08 runs only)
        4 => SocketAddr::V6(std::net::SocketAddrV6::new(Ipv6Addr::new(0xfe80, 0, 0, 0, 0, 0, 0, 1 + p as u16), port, 0, 2 + p as u32)),
        _ => {
            if cfg.ipv6 {
                SocketAddr::new(IpAddr::V6(Ipv6Addr::new(0xfd00, 0, 0, 0, 0, 0, 0, 1 + p as u16)), port)
            } else {
                SocketAddr::new(IpAddr::V4(Ipv4Addr::new(10, 0, 0, 1 + p as u8)), port)
            }
        }
    }
}

pub fn view_of(chit: &Chitchat) -> NodeView {
    let mut v = NodeView::new();
    for (rid, ns) in chit.node_states() {
        let mut entries = BTreeMap::new();
        for (k, vv) in ns.key_values_including_deleted() {
            entries.insert(k.to_string(), Entry { version: vv.version, kind: kind_of(&vv.status), len: vv.value.len() });
        }
        v.insert(
            Id::from_real(rid),
            CopyView { gc: ns.last_gc_version(), mv: ns.max_version(), hb: u64::from(ns.heartbeat()), entries },
        );
    }
    v
}

impl World {
    pub fn new(cfg: E1Config, keep_log: bool) -> World {
        let rt = tokio::runtime::Builder::new_current_thread().enable_time().start_paused(true).build().unwrap();
        let en: HashSet<String> = cfg.enabled.iter().cloned().collect();
        let n = cfg.n;
        let cluster_now = cfg.cluster_of.clone();
        World {
            cfg,
            en,
            rt,
            now_ms: 0,
            step: 0,
            incs: Vec::new(),
            inc_of: HashMap::new(),
            nodes: (0..n).map(|_| None).collect(),
            last_inc: vec![None; n],
            flights: Vec::new(),
            flight_seq: 0,
            groups: None,
            stats: Stats::default(),
            trace: Trace::default(),
            known_hits: Vec::new(),
            cluster_now,
            kf3_ids: vec![HashSet::new(); 2],
            abs_states: HashSet::new(),
            abs_transitions: HashSet::new(),
            nontrivial: HashSet::new(),
            quiesce_rounds: 0,
            quiesce_budget: 0,
            hog_seen: false,
            log: Vec::new(),
            keep_log,
        }
    }

    pub fn on(&self, prop: &str) -> bool {
        self.en.contains(prop)
    }

    /// Known finding KF-4 (C08): the scope id of an IPv6 address is part of `ChitchatId` equality but
    /// not of the wire format, so a message that mentions such an id does not decode to an equal one.
    pub fn known_kf4(&mut self, what: String) {
        self.stats.inc("known_kf4");
        if self.known_hits.len() < 4 {
            self.known_hits.push(format!("KF-4 {what}"));
        }
    }

    pub fn viol(&self, prop: &str, code: &str, detail: String) -> Violation {
        Violation { property: prop.to_string(), code: code.to_string(), step: self.step, detail, finding: String::new() }
    }

    pub fn note(&mut self, f: impl FnOnce() -> String) {
        if self.keep_log {
            let s = f();
            self.log.push(format!("[{} t={}] {}", self.step, self.now_ms, s));
        }
    }

    pub fn running(&self, p: usize) -> bool {
        p < self.nodes.len() && self.nodes[p].is_some()
    }

    pub fn same_group(&self, a: usize, b: usize) -> bool {
        match &self.groups {
            Some(g) => g.get(a).copied().unwrap_or(0) == g.get(b).copied().unwrap_or(0),
            None => true,
        }
    }

    /// Starts a new incarnation at position p (generation = previous + 1).
    pub fn start_node(&mut self, p: usize) {
        if p >= self.cfg.n || self.nodes[p].is_some() {
            return;
        }
        let generation = match self.last_inc[p] {
            Some(i) => self.incs[i].id.generation + 1,
            None => 0,
        };
        let addr = addr_of(&self.cfg, p);
        let id = Id { node_id: self.cfg.node_ids[p].clone(), generation, addr };
        let rid = id.to_real();
        let cb = Arc::new(AtomicUsize::new(0));
        let cb2 = cb.clone();
        let predicate: Option<Box<dyn Fn(&NodeState) -> bool + Send>> =
            if self.cfg.predicate { Some(Box::new(|ns: &NodeState| ns.get("svc").is_some())) } else { None };
        let seeds: Vec<String> =
            self.cfg.seeds.iter().filter(|s| **s != p).map(|s| addr_of(&self.cfg, *s).to_string()).collect();
        let config = ChitchatConfig {
            chitchat_id: rid.clone(),
            cluster_id: self.cfg.cluster_ids[self.cluster_now[p]].clone(),
            gossip_interval: Duration::from_millis(self.cfg.gossip_interval_ms),
            listen_addr: addr,
            seed_nodes: seeds.clone(),
            failure_detector_config: FailureDetectorConfig {
                phi_threshold: self.cfg.phi,
                sampling_window_size: self.cfg.window,
                max_interval: Duration::from_millis(self.cfg.max_interval_ms[p]),
                initial_interval: Duration::from_millis(self.cfg.initial_interval_ms[p]),
                dead_node_grace_period: Duration::from_millis(self.cfg.dead_grace_ms[p]),
            },
            marked_for_deletion_grace_period: Duration::from_millis(self.cfg.grace_ms[p]),
            catchup_callback: Some(Box::new(move || {
                cb2.fetch_add(1, Ordering::SeqCst);
            })),
            extra_liveness_predicate: predicate,
        };
        let seed_addrs: HashSet<SocketAddr> = seeds.iter().filter_map(|s| s.parse().ok()).collect();
        let (seed_tx, seed_rx) = watch::channel(seed_addrs);
        let chit = {
            let _g = self.rt.enter();
            Chitchat::with_chitchat_id_and_seeds(config, seed_rx, Vec::new())
        };
        let watch_rx = chit.live_nodes_watcher();
        let inc_idx = self.incs.len();
        let cluster = self.cluster_now[p];
        self.incs.push(Inc {
            cluster,
            pos: p,
            id: id.clone(),
            rid,
            ledger: HashMap::new(),
            latest: BTreeMap::new(),
            max_version: 0,
            hb: 1,
            running: true,
        });
        self.inc_of.insert(id, inc_idx);
        self.last_inc[p] = Some(inc_idx);
        let view = view_of(&chit);
        self.nodes[p] = Some(Node {
            chit,
            inc: inc_idx,
            cb,
            calls: Arc::new(Mutex::new(Vec::new())),
            subs: Vec::new(),
            watch_rx: Some(watch_rx),
            _seed_tx: seed_tx,
            death: HashMap::new(),
            removed_hb: HashMap::new(),
            obs: HashMap::new(),
            marks: HashMap::new(),
            taint: HashSet::new(),
            c02_ignore: HashSet::new(),
            verified: HashSet::new(),
            prev_eval_live: None,
            view,
        });
    }

    pub fn crash(&mut self, p: usize) {
        if let Some(node) = self.nodes[p].take() {
            let inc = node.inc;
            self.incs[inc].running = false;
            // datagrams addressed to p stay in flight: they may reach the next incarnation
            drop(node);
        }
    }

    pub fn link(&self, from: usize, to: usize) -> Vec<usize> {
        self.flights.iter().enumerate().filter(|(_, f)| f.from == from && f.to == to).map(|(i, _)| i).collect()
    }

    /// Refreshes the stored view of node p and returns (before, after).
    pub fn refresh_view(&mut self, p: usize) -> (NodeView, NodeView) {
        let node = self.nodes[p].as_mut().unwrap();
        let after = view_of(&node.chit);
        let before = std::mem::replace(&mut node.view, after.clone());
        (before, after)
    }

    /// A message leaves node p towards `to`. Runs the wire oracles (C07a, C08, C12 mentions) and
    /// puts it in flight unless a partition or the datagram size limit drops it.
    pub fn emit(
        &mut self,
        p: usize,
        to: usize,
        real: &ChitchatMessage,
        answers: Option<Arc<BTreeMap<Id, (u64, u64)>>>,
        answers_inc: usize,
    ) -> Result<Option<Arc<Msg>>, Violation> {
        let bytes = match crate::common::guarded(|| real.serialize_to_vec()) {
            Ok(b) => b,
            Err(pm) => return Err(self.viol("C08", "C08.serialize_panic", format!("serializing a message produced by n{p} panicked: {pm}"))),
        };
        let (msg, info, consumed) = match codec::decode(&bytes) {
            Ok(x) => x,
            Err(e) => {
                return Err(self.viol("C08", "C08.indep_decode", format!("independent decoder rejects emitted bytes: {e}")));
            }
        };
        self.trace.u(p as u64);
        self.trace.u(to as u64);
        self.trace.bytes(&bytes);
        self.stats.inc(&format!("msg_{}", msg.kind()));
        if info.compressed_blocks + info.raw_blocks > 1 {
            self.stats.inc("probe_multi_block_delta");
        }
        if info.raw_blocks > 0 {
            self.stats.inc("probe_uncompressed_block");
        }
        if self.on("C08") {
            self.nontrivial.insert("C08".into());
            if bytes.len() != real.serialized_len() {
                return Err(self.viol(
                    "C08",
                    "C08.len",
                    format!("{} announces {} bytes, wrote {}", msg.kind(), real.serialized_len(), bytes.len()),
                ));
            }
            if consumed != bytes.len() {
                return Err(self.viol("C08", "C08.indep_consumed", format!("independent decoder left {} bytes", bytes.len() - consumed)));
            }
            // decoding is a function of the bytes alone: a damaged datagram decoded just before (cut
            // short, or with one byte overwritten) must not influence the decoding of this one
            if self.step % 3 == 0 && bytes.len() > 8 && (bytes.len() < 8_000 || self.step % 12 == 0) {
                let mut bad = bytes.clone();
                match self.step % 4 {
                    0 => bad.truncate(bytes.len() - 1),
                    1 => bad.truncate(bytes.len() / 2),
                    2 => {
                        let i = bad.len() - 1 - (self.step % 5);
                        bad[i] = 0xff;
                    }
                    _ => bad.push(1),
                }
                let r = crate::common::guarded(|| {
                    let mut c = &bad[..];
                    ChitchatMessage::deserialize(&mut c).is_ok()
                });
                if let Err(pm) = r {
                    return Err(self.viol("C09", "C09.decode_panic", format!("decoder panicked on a damaged datagram: {pm}")));
                }
                self.stats.inc("damaged_datagram_decoded_before_valid_one");
            }
            let mut cur = &bytes[..];
            match ChitchatMessage::deserialize(&mut cur) {
                Ok(back) => {
                    if !cur.is_empty() {
                        return Err(self.viol("C08", "C08.consumed", format!("real decoder left {} bytes", cur.len())));
                    }
                    if &back != real {
                        if strip_scope(&format!("{back:?}")) == strip_scope(&format!("{real:?}")) {
                            self.known_kf4(format!("{} of n{p} does not round-trip: the scope id of an IPv6 address is not on the wire", msg.kind()));
                        } else {
                            return Err(self.viol("C08", "C08.roundtrip", format!("{} does not round-trip", msg.kind())));
                        }
                    }
                }
                Err(e) => return Err(self.viol("C08", "C08.decode", format!("real decoder rejects own output: {e}"))),
            }
            // independent re-encoding with a different block plan must decode to the same message
            let plan = match self.step % 3 {
                0 => codec::BlockPlan::Auto { size: 16_384 },
                1 => codec::BlockPlan::Raw { size: 1 + (self.step * 7919) % 30_000 },
                _ => codec::BlockPlan::Zstd { size: 1 + (self.step * 104_729) % 60_000 },
            };
            let re = codec::encode(&msg, plan);
            let mut cur = &re[..];
            match ChitchatMessage::deserialize(&mut cur) {
                Ok(back) => {
                    // Delta equality includes the recorded byte length, which legitimately differs
                    // between two encodings of the same content: compare the structure.
                    if !cur.is_empty() || strip_len(&format!("{back:?}")) != strip_len(&format!("{real:?}")) {
                        if cur.is_empty() && strip_scope(&strip_len(&format!("{back:?}"))) == strip_scope(&strip_len(&format!("{real:?}"))) {
                            self.known_kf4(format!("re-encoded {} of n{p} decodes to ids without their IPv6 scope id", msg.kind()));
                        } else {
                            return Err(self.viol("C08", "C08.indep_encode", format!("re-encoded {} decodes differently", msg.kind())));
                        }
                    }
                    if back.serialized_len() != re.len() {
                        return Err(self.viol(
                            "C08",
                            "C08.len_after_decode",
                            format!("decoded {} announces {} for {} bytes", msg.kind(), back.serialized_len(), re.len()),
                        ));
                    }
                }
                Err(e) => {
                    return Err(self.viol("C08", "C08.indep_encode_rejected", format!("real decoder rejects independent encoding: {e}")))
                }
            }
        }
        // C08: the independently decoded digest is what the sender's state says (catches layout
        // changes that are self-consistent between the real encoder and decoder)
        // (also under C14, whose statement is about deltas computed "from the receiver's own digest":
        // a digest that misreports the sender's copies voids that premise)
        if self.on("C08") || self.on("C14") {
            if let Some(d) = msg.digest() {
                let node = self.nodes[p].as_ref().unwrap();
                let scheduled: HashSet<Id> = {
                    let _g = self.rt.enter();
                    node.chit.scheduled_for_deletion_nodes().map(Id::from_real).collect()
                };
                let want: Vec<(Id, codec::NodeDigest)> = node
                    .chit
                    .node_states()
                    .iter()
                    .map(|(rid, ns)| (Id::from_real(rid), codec::NodeDigest { heartbeat: u64::from(ns.heartbeat()), gc: ns.last_gc_version(), max: ns.max_version() }))
                    .filter(|(id, _)| !scheduled.contains(id))
                    .collect();
                let unscoped = |v: &Vec<(Id, codec::NodeDigest)>| -> Vec<(Id, codec::NodeDigest)> { v.iter().map(|(id, nd)| (Id { addr: without_scope(id.addr), ..id.clone() }, nd.clone())).collect() };
                if d != &want && self.cfg.addr_kind == 4 && unscoped(d) == unscoped(&want) {
                    self.known_kf4(format!("digest of n{p} on the wire lists its members without their IPv6 scope id"));
                } else if d != &want {
                    let show = |v: &Vec<(Id, codec::NodeDigest)>| v.iter().take(4).map(|(id, nd)| format!("{}:(hb{},gc{},mv{})", id.short(), nd.heartbeat, nd.gc, nd.max)).collect::<Vec<_>>().join(" ");
                    let (prop, code) = if self.on("C08") { ("C08", "C08.digest_content") } else { ("C14", "C14.digest_misreports") };
                    return Err(self.viol(prop, code, format!("digest on the wire, read by the independent decoder: [{}]; sender state: [{}]", show(d), show(&want))));
                }
            }
            if let Msg::Syn { cluster, .. } = &msg {
                if cluster != &self.cfg.cluster_ids[self.cluster_now[p]] {
                    return Err(self.viol("C08", "C08.cluster_id", format!("SYN carries cluster id {cluster:?}")));
                }
            }
        }
        // C12: nothing about a member quarantined for more than half the grace period
        if self.on("C12") {
            let node = self.nodes[p].as_ref().unwrap();
            let half = self.cfg.dead_grace_ms[p] / 2;
            let mut mentioned: Vec<&Id> = Vec::new();
            if let Some(d) = msg.digest() {
                mentioned.extend(d.iter().map(|(id, _)| id));
            }
            if let Some(ops) = msg.ops() {
                for op in ops {
                    if let codec::Op::Node { id, .. } = op {
                        mentioned.push(id);
                    }
                }
            }
            let mut quarantined = 0;
            for (id, d) in &node.death {
                if d + half + 2 < self.now_ms {
                    quarantined += 1;
                    if mentioned.contains(&id) {
                        return Err(self.viol(
                            "C12",
                            "C12.mention",
                            format!("n{p} mentions {} in a {} at {} although dead since {} (grace {})", id.short(), msg.kind(), self.now_ms, d, self.cfg.dead_grace_ms[p]),
                        ));
                    }
                }
            }
            if quarantined > 0 {
                self.stats.add("probe_quarantined_at_send", quarantined);
                self.nontrivial.insert("C12".into());
            }
        }
        let is_reply = !matches!(msg, Msg::Syn { .. });
        if is_reply {
            self.stats.max("max_reply_len", bytes.len() as u64);
            if bytes.len() + 16 > codec::MAX_DATAGRAM {
                self.stats.inc("probe_reply_within_16_of_limit");
            }
        }
        if bytes.len() > codec::MAX_DATAGRAM {
            self.stats.inc("fault_oversize_refused");
            if is_reply && self.on("C07") {
                let dlen = msg.digest().map(|d| codec::digest_len(d)).unwrap_or(0);
                if dlen + 4 + 100 <= codec::MAX_DATAGRAM {
                    return Err(self.viol(
                        "C07",
                        "C07.size",
                        format!("{} of {} bytes (own digest {} bytes) exceeds 65,507", msg.kind(), bytes.len(), dlen),
                    ));
                }
            }
            return Ok(None);
        }
        let msg = Arc::new(msg);
        if !self.same_group(p, to) {
            self.stats.inc("fault_partition_drop");
            return Ok(Some(msg));
        }
        let taint = Arc::new(self.nodes[p].as_ref().unwrap().taint.clone());
        self.flight_seq += 1;
        let from_inc = self.nodes[p].as_ref().unwrap().inc;
        self.flights.push(Flight {
            seq: self.flight_seq,
            from: p,
            from_inc,
            to,
            bytes: Arc::new(bytes),
            msg: msg.clone(),
            answers,
            answers_inc,
            taint,
            hostile: false,
        });
        Ok(Some(msg))
    }

    /// C02 + C03 over all copies held by node p.
    pub fn check_copies(&mut self, p: usize, deep: bool) -> Result<(), Violation> {
        let c02 = self.on("C02");
        let c03 = self.on("C03");
        if !c02 && !c03 {
            return Ok(());
        }
        let node = self.nodes[p].as_mut().unwrap();
        if deep {
            node.verified.clear();
        }
        let step = self.step;
        let mk = |prop: &str, code: &str, detail: String| Violation {
            property: prop.to_string(),
            code: code.to_string(),
            step,
            detail,
            finding: String::new(),
        };
        let mut kf_hits: Vec<(Id, String, String)> = Vec::new();
        for (rid, ns) in node.chit.node_states() {
            let id = Id::from_real(rid);
            let Some(&oi) = self.inc_of.get(&id) else {
                if c03 {
                    return Err(mk("C03", "C03.unknown_member", format!("n{p} holds member {} that never existed", id.short())));
                }
                continue;
            };
            let owner = &self.incs[oi];
            if c03 {
                if !owner.ledger.is_empty() {
                    self.nontrivial.insert("C03".into());
                }
                if ns.max_version() > owner.max_version {
                    return Err(mk(
                        "C03",
                        "C03.ahead",
                        format!("n{p} copy of {} at max version {} ahead of owner {}", id.short(), ns.max_version(), owner.max_version),
                    ));
                }
                if u64::from(ns.heartbeat()) > owner.hb {
                    return Err(mk(
                        "C03",
                        "C03.heartbeat_ahead",
                        format!("n{p} records heartbeat {} for {} whose own is {}", u64::from(ns.heartbeat()), id.short(), owner.hb),
                    ));
                }
                for (k, v) in ns.key_values_including_deleted() {
                    let sig = (id.clone(), k.to_string(), v.version);
                    let Some(w) = owner.ledger.get(&(k.to_string(), v.version)) else {
                        return Err(mk(
                            "C03",
                            "C03.invented",
                            format!("n{p} holds {}:{k:?}@{} (kind {}, {} bytes) which the owner never wrote", id.short(), v.version, kind_of(&v.status), v.value.len()),
                        ));
                    };
                    if w.kind != kind_of(&v.status) || w.value.len() != v.value.len() {
                        return Err(mk(
                            "C03",
                            "C03.altered",
                            format!("n{p} holds {}:{k:?}@{} kind {} len {}; owner wrote kind {} len {}", id.short(), v.version, kind_of(&v.status), v.value.len(), w.kind, w.value.len()),
                        ));
                    }
                    if !node.verified.contains(&sig) {
                        if w.value != v.value {
                            return Err(mk("C03", "C03.altered_value", format!("n{p} holds {}:{k:?}@{} with a different value", id.short(), v.version)));
                        }
                        node.verified.insert(sig);
                    }
                }
            }
            if c02 {
                let (gc, mv) = (ns.last_gc_version(), ns.max_version());
                if !owner.latest.is_empty() {
                    self.nontrivial.insert("C02".into());
                }
                for (k, w) in &owner.latest {
                    if w.version > mv {
                        continue;
                    }
                    let have = ns.get_versioned(k);
                    let ok = match have {
                        Some(v) => v.version == w.version && kind_of(&v.status) == w.kind && v.value.len() == w.value.len() && (v.value == w.value),
                        None => w.kind != 0 && w.version <= gc,
                    };
                    if ok {
                        continue;
                    }
                    if node.c02_ignore.contains(&(id.clone(), k.clone())) {
                        continue;
                    }
                    let detail = format!(
                        "n{p} copy of {} at (gc {gc}, max {mv}): key {k:?} holds {:?}, owner's latest write is @{} kind {}",
                        id.short(),
                        have.map(|v| (v.version, kind_of(&v.status), v.value.len())),
                        w.version,
                        w.kind
                    );
                    let tainted = have.map(|v| node.taint.contains(&(id.clone(), k.clone(), v.version))).unwrap_or(false);
                    if tainted {
                        kf_hits.push((id.clone(), k.clone(), detail));
                        continue;
                    }
                    return Err(mk("C02", "C02.stale", detail));
                }
            }
        }
        for (id, k, detail) in kf_hits {
            node.c02_ignore.insert((id, k));
            self.known_hits.push(format!("KF-1 {detail}"));
            self.stats.inc("known_KF1_hits");
        }
        Ok(())
    }
}

/// Removes IPv6 scope ids (`%7`) from a Debug rendering.
pub fn strip_scope(s: &str) -> String {
    let mut out = String::with_capacity(s.len());
    let mut it = s.chars().peekable();
    while let Some(c) = it.next() {
        if c == '%' && it.peek().map(|d| d.is_ascii_digit()).unwrap_or(false) {
            while it.peek().map(|d| d.is_ascii_digit()).unwrap_or(false) {
                it.next();
            }
        } else {
            out.push(c);
        }
    }
    out
}

pub fn without_scope(a: SocketAddr) -> SocketAddr {
    match a {
        SocketAddr::V6(v6) => SocketAddr::V6(std::net::SocketAddrV6::new(*v6.ip(), v6.port(), 0, 0)),
        other => other,
    }
}

/// Removes `serialized_len: N` from a Debug rendering of a message.
pub fn strip_len(s: &str) -> String {
    let pat = "serialized_len: ";
    let mut out = String::with_capacity(s.len());
    let mut rest = s;
    while let Some(i) = rest.find(pat) {
        out.push_str(&rest[..i + pat.len()]);
        rest = rest[i + pat.len()..].trim_start_matches(|c: char| c.is_ascii_digit());
    }
    out.push_str(rest);
    out
}

#[allow(dead_code)]
pub fn total_state_bytes(w: &World) -> u64 {
    let mut total = 0u64;
    for inc in &w.incs {
        for wr in inc.latest.values() {
            total += (wr.key.len() + wr.value.len() + 16) as u64;
        }
    }
    total
}

#[allow(dead_code)]
pub fn stats_of(w: &World) -> &Stats {
    &w.stats
}
