pub mod deliver;
pub mod engine;
pub mod gen;
pub mod quiesce;
pub mod reply;
pub mod steps;
pub mod types;
pub mod world;
