//! Oracles on a reply at the moment it is produced (C07 b, C14 completeness, C03 on the wire).

use std::collections::{BTreeMap, HashSet};

use super::world::*;
use crate::codec::{self, Id, Msg};
use crate::common::Violation;

impl World {
    /// `m` was just produced by node p in answer to a digest with frontier `answers`;
    /// `view` is p's state right now.
    pub fn check_reply(&mut self, p: usize, m: &Msg, answers: &BTreeMap<Id, (u64, u64)>, view: &NodeView) -> Result<(), Violation> {
        let Some(ops) = m.ops() else { return Ok(()) };
        let c08 = self.on("C08");
        let c07 = self.on("C07") || c08;
        let c14 = self.on("C14");
        if !c07 && !c14 {
            // reach probe only: was this reply cut short by the datagram limit?
            if let Some(deltas) = codec::group_ops(ops) {
                let cut = deltas.iter().any(|nd| match view.get(&nd.id) {
                    Some(copy) => {
                        let complete = if nd.kvs.is_empty() { nd.has_setmax || copy.mv <= nd.from } else { nd.max >= copy.entries.values().map(|e| e.version).max().unwrap_or(0) };
                        !complete
                    }
                    None => false,
                });
                if cut {
                    self.stats.inc("probe_mtu_truncation");
                }
            }
            return Ok(());
        }
        let Some(deltas) = codec::group_ops(ops) else {
            return Err(self.viol(if c08 && !self.on("C07") { "C08" } else { "C07" }, "C07.malformed", format!("n{p} produced an op stream no decoder accepts")));
        };
        let node = self.nodes[p].as_ref().unwrap();
        let scheduled: HashSet<Id> = {
            let _g = self.rt.enter();
            node.chit.scheduled_for_deletion_nodes().map(Id::from_real).collect()
        };
        if c07 && !deltas.is_empty() {
            self.nontrivial.insert("C07".into());
        }
        let mut truncated = false;
        if c07 {
            match crate::c07::check_deltas(&format!("n{p}"), &node.chit, view, &scheduled, answers, &deltas) {
                Ok(rep) => truncated = rep.truncated,
                Err((code, detail)) => {
                    if c08 && !self.on("C07") {
                        return Err(self.viol("C08", &code.replace("C07.", "C08.delta_"), detail));
                    }
                    return Err(self.viol("C07", &code, detail));
                }
            }
        } else {
            for nd in &deltas {
                if let Some(copy) = view.get(&nd.id) {
                    let complete = if nd.kvs.is_empty() { nd.has_setmax || copy.mv <= nd.from } else { nd.max >= copy.entries.values().map(|e| e.version).max().unwrap_or(0) };
                    truncated |= !complete;
                }
            }
        }
        if truncated {
            self.stats.inc("probe_mtu_truncation");
        }
        // C14: a sender copy that is ahead appears in the delta unless space ran out.
        if c14 {
            let dlen = m.digest().map(|d| codec::digest_len(d)).unwrap_or(0);
            let mut need = 0usize;
            let mut missing: Vec<&Id> = Vec::new();
            for (id, copy) in view {
                if scheduled.contains(id) {
                    continue;
                }
                let (pgc, pmv) = answers.get(id).copied().unwrap_or((0, 0));
                if copy.mv <= pmv {
                    continue;
                }
                let from = if pgc < copy.gc && pmv < copy.gc { 0 } else { pmv };
                need += 1 + 2 + id.node_id.len() + 8 + 20 + 16;
                let mut any = false;
                for (k, e) in &copy.entries {
                    if e.version > from {
                        need += 1 + 2 + k.len() + 2 + e.len + 9;
                        any = true;
                    }
                }
                if !any {
                    need += 9;
                }
                if !deltas.iter().any(|nd| &nd.id == id) {
                    missing.push(id);
                }
            }
            let blocks = need / 16_384 + 2;
            let fits_for_sure = 4 + dlen + need + 3 * blocks + 1 + 64 <= codec::MAX_DATAGRAM;
            if fits_for_sure {
                if let Some(id) = missing.first() {
                    return Err(self.viol("C14", "C14.missing_member", format!("n{p} is ahead on {} but left it out of a reply with room to spare", id.short())));
                }
                if truncated {
                    return Err(self.viol("C14", "C14.truncated_with_room", format!("n{p} truncated a delta although everything fits ({} bytes needed)", need)));
                }
            }
        }
        Ok(())
    }
}
