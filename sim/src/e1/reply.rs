//! Oracles on a reply at the moment it is produced (C07 b, C14 completeness, C03 on the wire).

use std::collections::{BTreeMap, HashSet};

use super::world::*;
use crate::codec::{self, Id, Msg};
use crate::common::Violation;

impl World {
    /// `m` was just produced by node p in answer to a digest with frontier `answers`;
    /// `view` is p's state right now.
    pub fn check_reply(&mut self, p: usize, m: &Msg, answers: &BTreeMap<Id, (u64, u64)>, view: &NodeView) -> Result<(), Violation> {
        let Some(ops) = m.ops() else { return Ok(()) };
        let c07 = self.on("C07");
        let c14 = self.on("C14");
        if !c07 && !c14 {
            return Ok(());
        }
        let Some(deltas) = codec::group_ops(ops) else {
            return Err(self.viol("C07", "C07.malformed", format!("n{p} produced an op stream no decoder accepts")));
        };
        let node = self.nodes[p].as_ref().unwrap();
        let scheduled: HashSet<Id> = {
            let _g = self.rt.enter();
            node.chit.scheduled_for_deletion_nodes().map(Id::from_real).collect()
        };
        if c07 && !deltas.is_empty() {
            self.nontrivial.insert("C07".into());
        }
        let mut truncated = false;
        for (i, nd) in deltas.iter().enumerate() {
            let Some(copy) = view.get(&nd.id) else {
                if c07 {
                    return Err(self.viol("C07", "C07.unknown_member", format!("n{p} sends a delta about {} it does not hold", nd.id.short())));
                }
                continue;
            };
            let ns = node.chit.node_state(&nd.id.to_real()).unwrap();
            let peer_mv = answers.get(&nd.id).map(|f| f.1).unwrap_or(0);
            if c07 {
                if scheduled.contains(&nd.id) {
                    return Err(self.viol("C07", "C07.scheduled_member", format!("n{p} includes {} which is scheduled for deletion", nd.id.short())));
                }
                if nd.gc != copy.gc {
                    return Err(self.viol("C07", "C07.gc", format!("n{p} delta for {} announces watermark {} but the copy's is {}", nd.id.short(), nd.gc, copy.gc)));
                }
                if nd.from != 0 && nd.from != peer_mv {
                    return Err(self.viol("C07", "C07.from", format!("n{p} delta for {} starts at {} (peer announced {})", nd.id.short(), nd.from, peer_mv)));
                }
                if nd.kvs.is_empty() {
                    if nd.has_setmax && nd.max != copy.mv {
                        return Err(self.viol("C07", "C07.setmax", format!("n{p} SetMaxVersion({}) for {} whose copy is at {}", nd.max, nd.id.short(), copy.mv)));
                    }
                } else {
                    if nd.has_setmax {
                        return Err(self.viol("C07", "C07.setmax_after_kvs", format!("n{p} emits SetMaxVersion after key-values for {}", nd.id.short())));
                    }
                    let mut expect: Vec<(&String, &Entry)> = copy.entries.iter().filter(|(_, e)| e.version > nd.from && e.version <= nd.max).collect();
                    expect.sort_by_key(|(_, e)| e.version);
                    let got: Vec<(&String, u64)> = nd.kvs.iter().map(|kv| (&kv.key, kv.version)).collect();
                    let want: Vec<(&String, u64)> = expect.iter().map(|(k, e)| (*k, e.version)).collect();
                    if got != want {
                        let show = |v: &Vec<(&String, u64)>| v.iter().take(8).map(|(k, ver)| format!("{k:?}@{ver}")).collect::<Vec<_>>().join(",");
                        return Err(self.viol(
                            "C07",
                            "C07.slice",
                            format!("n{p} delta for {} (from {}, max {}) is not the gap-free slice of the copy: sent [{}] copy has [{}]", nd.id.short(), nd.from, nd.max, show(&got), show(&want)),
                        ));
                    }
                    for kv in &nd.kvs {
                        let vv = ns.get_versioned(&kv.key).unwrap();
                        if vv.value != kv.value || kind_of(&vv.status) != kv.status {
                            return Err(self.viol("C07", "C07.entry_altered", format!("n{p} delta for {} carries {:?}@{} differing from the copy", nd.id.short(), kv.key, kv.version)));
                        }
                    }
                }
            }
            let complete = if nd.kvs.is_empty() { nd.has_setmax || copy.mv <= nd.from } else { nd.max >= copy.entries.values().map(|e| e.version).max().unwrap_or(0) };
            if !complete {
                truncated = true;
                self.stats.inc("probe_mtu_truncation");
                if i + 1 != deltas.len() && c07 {
                    return Err(self.viol("C07", "C07.truncated_middle", format!("n{p} truncated {} although more members follow", nd.id.short())));
                }
            }
        }
        // C14: a sender copy that is ahead appears in the delta unless space ran out.
        if c14 {
            let dlen = m.digest().map(|d| codec::digest_len(d)).unwrap_or(0);
            let mut need = 0usize;
            let mut missing: Vec<&Id> = Vec::new();
            for (id, copy) in view {
                if scheduled.contains(id) {
                    continue;
                }
                let (pgc, pmv) = answers.get(id).copied().unwrap_or((0, 0));
                if copy.mv <= pmv {
                    continue;
                }
                let from = if pgc < copy.gc && pmv < copy.gc { 0 } else { pmv };
                need += 1 + 2 + id.node_id.len() + 8 + 20 + 16;
                let mut any = false;
                for (k, e) in &copy.entries {
                    if e.version > from {
                        need += 1 + 2 + k.len() + 2 + e.len + 9;
                        any = true;
                    }
                }
                if !any {
                    need += 9;
                }
                if !deltas.iter().any(|nd| &nd.id == id) {
                    missing.push(id);
                }
            }
            let blocks = need / 16_384 + 2;
            let fits_for_sure = 4 + dlen + need + 3 * blocks + 1 + 64 <= codec::MAX_DATAGRAM;
            if fits_for_sure {
                if let Some(id) = missing.first() {
                    return Err(self.viol("C14", "C14.missing_member", format!("n{p} is ahead on {} but left it out of a reply with room to spare", id.short())));
                }
                if truncated {
                    return Err(self.viol("C14", "C14.truncated_with_room", format!("n{p} truncated a delta although everything fits ({} bytes needed)", need)));
                }
            }
        }
        Ok(())
    }
}
