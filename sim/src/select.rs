//! C17: the real peer selection function driven through the facade, with a scripted generator.

use std::collections::HashSet;
use std::convert::Infallible;
use std::net::SocketAddr;

use crate::common::guarded;
use crate::rng::Rng;

/// mode 0: seeded stream; 1: every draw 0; 2: every draw all-ones; 3: mid-range constant;
/// 4: alternating extremes.
pub struct ScriptedRng {
    pub inner: Rng,
    pub mode: u8,
    pub draws: u64,
}

impl ScriptedRng {
    fn word(&mut self) -> u64 {
        self.draws += 1;
        match self.mode {
            1 => 0,
            2 => u64::MAX,
            3 => 1u64 << 63,
            4 => {
                if self.draws % 2 == 0 {
                    0
                } else {
                    u64::MAX
                }
            }
            _ => self.inner.next(),
        }
    }
}

impl rand::TryRng for ScriptedRng {
    type Error = Infallible;
    fn try_next_u32(&mut self) -> Result<u32, Infallible> {
        Ok((self.word() >> 32) as u32)
    }
    fn try_next_u64(&mut self) -> Result<u64, Infallible> {
        Ok(self.word())
    }
    fn try_fill_bytes(&mut self, dst: &mut [u8]) -> Result<(), Infallible> {
        for chunk in dst.chunks_mut(8) {
            let w = self.word().to_le_bytes();
            chunk.copy_from_slice(&w[..chunk.len()]);
        }
        Ok(())
    }
}

pub type Selection = (Vec<SocketAddr>, Option<SocketAddr>, Option<SocketAddr>);

/// Runs the real selection. The iteration order of the `HashSet` pools depends on the calling
/// thread's hash keys; every run executes on a fresh thread whose keys derive from the run seed
/// and replay re-executes the same sequence of steps on an equally seeded thread, so the result
/// is a function of (run seed, command list).
pub fn run_selection(
    rng_seed: u64,
    mode: u8,
    peers: &[SocketAddr],
    live: &[SocketAddr],
    dead: &[SocketAddr],
    seeds: &[SocketAddr],
) -> Result<Selection, String> {
    let mut rng = ScriptedRng { inner: Rng::new(rng_seed), mode, draws: 0 };
    let (p, l, d, s): (HashSet<_>, HashSet<_>, HashSet<_>, HashSet<_>) =
        (peers.iter().copied().collect(), live.iter().copied().collect(), dead.iter().copied().collect(), seeds.iter().copied().collect());
    guarded(|| chitchat::verif::select_nodes_for_gossip(&mut rng, p, l, d, s))
}

/// The C17 statement as a predicate on one call.
pub fn check_selection(
    peers: &[SocketAddr],
    live: &[SocketAddr],
    dead: &[SocketAddr],
    seeds: &[SocketAddr],
    nodes: &[SocketAddr],
    dead_pick: Option<SocketAddr>,
    seed_pick: Option<SocketAddr>,
) -> Result<(), (String, String)> {
    let pool: &[SocketAddr] = if live.is_empty() { peers } else { live };
    let e = |code: &str, d: String| Err((code.to_string(), d));
    if nodes.len() > 3 {
        return e("C17.too_many", format!("{} peers selected", nodes.len()));
    }
    let distinct: HashSet<&SocketAddr> = nodes.iter().collect();
    if distinct.len() != nodes.len() {
        return e("C17.duplicate", format!("selected peers repeat: {nodes:?}"));
    }
    for n in nodes {
        if !pool.contains(n) {
            return e("C17.outside_pool", format!("{n} selected but the pool is {pool:?}"));
        }
    }
    if nodes.len() != pool.len().min(3) {
        return e("C17.too_few", format!("{} peers selected from a pool of {}", nodes.len(), pool.len()));
    }
    if let Some(d) = dead_pick {
        if !dead.contains(&d) {
            return e("C17.dead_outside", format!("dead pick {d} not in the dead set"));
        }
    }
    if let Some(s) = seed_pick {
        if !seeds.contains(&s) {
            return e("C17.seed_outside", format!("seed pick {s} not in the seed set"));
        }
    }
    if dead.len() > live.len() && dead_pick.is_none() {
        return e("C17.dead_not_forced", format!("{} dead peers outnumber {} live ones but none was contacted", dead.len(), live.len()));
    }
    let seed_among = nodes.iter().any(|n| seeds.contains(n));
    if live.is_empty() && !seeds.is_empty() && !seed_among && seed_pick.is_none() {
        return e("C17.seed_not_forced", "no live peer is known, a seed exists, yet no seed was contacted".to_string());
    }
    Ok(())
}
