//! Interposition of libc `getrandom` so that std's `RandomState` keys and `rand::rng()` are a
//! function of the per-run seed. Each run executes on a fresh thread; thread-local consumers
//! (hash keys, ThreadRng) therefore restart from the seed installed by `seed_thread`.

use std::cell::Cell;
use std::collections::HashSet;
use std::hash::{BuildHasher, RandomState};

thread_local! {
    static STATE: Cell<u64> = const { Cell::new(0x1234_5678_9abc_def1) };
    static CALLS: Cell<u64> = const { Cell::new(0) };
}

/// # Safety
/// Called by libc users with a valid buffer of `len` bytes.
#[no_mangle]
pub unsafe extern "C" fn getrandom(buf: *mut u8, len: usize, _flags: u32) -> isize {
    STATE.with(|s| {
        let mut x = s.get();
        for i in 0..len {
            x ^= x << 13;
            x ^= x >> 7;
            x ^= x << 17;
            unsafe { *buf.add(i) = (x >> 24) as u8 };
        }
        s.set(x);
    });
    CALLS.with(|c| c.set(c.get() + 1));
    len as isize
}

pub fn seed_thread(seed: u64) {
    STATE.with(|s| s.set(crate::rng::mix(seed, 0x5eed) | 1));
}

pub fn calls() -> u64 {
    CALLS.with(|c| c.get())
}

/// Fingerprint of the thread's randomness as seen by std and by `rand`.
fn fingerprint(seed: u64) -> (u64, u64, Vec<u32>) {
    std::thread::spawn(move || {
        seed_thread(seed);
        let h = RandomState::new().hash_one(42u64);
        let r: u64 = rand::RngExt::random(&mut rand::rng());
        let set: HashSet<u32> = (0..16).collect();
        (h, r, set.into_iter().collect())
    })
    .join()
    .unwrap()
}

/// Returns Err if the interposition is not live (randomness does not follow the seed).
pub fn self_check() -> Result<(), String> {
    let a = fingerprint(7);
    let b = fingerprint(7);
    let c = fingerprint(8);
    if a != b {
        return Err(format!("getrandom shim not live: same seed gave {a:?} and {b:?}"));
    }
    if a.0 == c.0 || a.1 == c.1 {
        return Err("getrandom shim not live: different seeds gave equal output".to_string());
    }
    Ok(())
}
