//! Independent implementation of the chitchat wire layout (message.rs, digest.rs, delta.rs,
//! serialize.rs), written from the documented layout and used as an oracle (C08), as the
//! simulator's eyes on the wire, and to craft datagrams. Shares only the zstd library.

use std::collections::BTreeMap;
use std::net::{IpAddr, Ipv4Addr, Ipv6Addr, SocketAddr};

pub const MAGIC: u16 = 45_139;
pub const MAX_DATAGRAM: usize = 65_507;

#[derive(Clone, Debug, PartialEq, Eq, PartialOrd, Ord, Hash)]
pub struct Id {
    pub node_id: String,
    pub generation: u64,
    pub addr: SocketAddr,
}

impl Id {
    pub fn to_real(&self) -> chitchat::ChitchatId {
        chitchat::ChitchatId::new(self.node_id.clone(), self.generation, self.addr)
    }
    pub fn from_real(id: &chitchat::ChitchatId) -> Id {
        Id { node_id: id.node_id.clone(), generation: id.generation_id, addr: id.gossip_advertise_addr }
    }
    pub fn short(&self) -> String {
        let n: String = self.node_id.chars().take(12).collect();
        format!("{}#{}@{}", n, self.generation, self.addr.port())
    }
}

#[derive(Clone, Debug, PartialEq, Eq)]
pub struct NodeDigest {
    pub heartbeat: u64,
    pub gc: u64,
    pub max: u64,
}

pub type Digest = BTreeMap<Id, NodeDigest>;

#[derive(Clone, Debug, PartialEq, Eq)]
pub struct Kv {
    pub key: String,
    pub value: String,
    pub version: u64,
    pub status: u8, // 0 set, 1 delete, 2 delete-after-ttl
}

#[derive(Clone, Debug, PartialEq, Eq)]
pub enum Op {
    Node { id: Id, gc: u64, from: u64 },
    Kv(Kv),
    SetMax(u64),
}

#[derive(Clone, Debug, PartialEq, Eq)]
pub enum Msg {
    Syn { digest: Vec<(Id, NodeDigest)>, cluster: String },
    SynAck { digest: Vec<(Id, NodeDigest)>, ops: Vec<Op> },
    Ack { ops: Vec<Op> },
    BadCluster,
}

impl Msg {
    pub fn kind(&self) -> &'static str {
        match self {
            Msg::Syn { .. } => "syn",
            Msg::SynAck { .. } => "synack",
            Msg::Ack { .. } => "ack",
            Msg::BadCluster => "badcluster",
        }
    }
    pub fn digest(&self) -> Option<&Vec<(Id, NodeDigest)>> {
        match self {
            Msg::Syn { digest, .. } | Msg::SynAck { digest, .. } => Some(digest),
            _ => None,
        }
    }
    pub fn ops(&self) -> Option<&Vec<Op>> {
        match self {
            Msg::SynAck { ops, .. } | Msg::Ack { ops } => Some(ops),
            _ => None,
        }
    }
}

/// One member's part of a delta, grouped the way the receiving state machine sees it.
#[derive(Clone, Debug, PartialEq, Eq)]
pub struct NodeDelta {
    pub id: Id,
    pub gc: u64,
    pub from: u64,
    pub kvs: Vec<Kv>,
    pub max: u64,
    pub has_setmax: bool,
}

/// Groups a (well-formed) op stream per member. Returns None when the stream is not one an
/// honest encoder produces (kv before node, duplicate member, non-increasing versions).
pub fn group_ops(ops: &[Op]) -> Option<Vec<NodeDelta>> {
    let mut out: Vec<NodeDelta> = Vec::new();
    for op in ops {
        match op {
            Op::Node { id, gc, from } => {
                if out.iter().any(|nd| &nd.id == id) {
                    return None;
                }
                out.push(NodeDelta { id: id.clone(), gc: *gc, from: *from, kvs: Vec::new(), max: 0, has_setmax: false });
            }
            Op::Kv(kv) => {
                let cur = out.last_mut()?;
                if kv.version <= cur.max {
                    return None;
                }
                cur.max = kv.version;
                cur.kvs.push(kv.clone());
            }
            Op::SetMax(v) => {
                let cur = out.last_mut()?;
                cur.max = *v;
                cur.has_setmax = true;
            }
        }
    }
    Some(out)
}

#[derive(Clone, Debug, Default, PartialEq, Eq)]
pub struct StreamInfo {
    pub compressed_blocks: usize,
    pub raw_blocks: usize,
    pub payload_len: usize,
}

pub struct Reader<'a> {
    pub buf: &'a [u8],
}

impl<'a> Reader<'a> {
    fn take(&mut self, n: usize) -> Result<&'a [u8], String> {
        if self.buf.len() < n {
            return Err(format!("short buffer: need {n}, have {}", self.buf.len()));
        }
        let (a, b) = self.buf.split_at(n);
        self.buf = b;
        Ok(a)
    }
    fn u8(&mut self) -> Result<u8, String> {
        Ok(self.take(1)?[0])
    }
    fn u16(&mut self) -> Result<u16, String> {
        let b = self.take(2)?;
        Ok(u16::from_le_bytes([b[0], b[1]]))
    }
    fn u64(&mut self) -> Result<u64, String> {
        let b = self.take(8)?;
        Ok(u64::from_le_bytes(b.try_into().unwrap()))
    }
    fn string(&mut self) -> Result<String, String> {
        let n = self.u16()? as usize;
        let b = self.take(n)?;
        String::from_utf8(b.to_vec()).map_err(|e| format!("utf8: {e}"))
    }
    fn addr(&mut self) -> Result<SocketAddr, String> {
        let v = self.u8()?;
        let ip: IpAddr = match v {
            4 => {
                let b = self.take(4)?;
                IpAddr::V4(Ipv4Addr::new(b[0], b[1], b[2], b[3]))
            }
            6 => {
                let b: [u8; 16] = self.take(16)?.try_into().unwrap();
                IpAddr::V6(Ipv6Addr::from(b))
            }
            x => return Err(format!("ip version {x}")),
        };
        let port = self.u16()?;
        Ok(SocketAddr::new(ip, port))
    }
    fn id(&mut self) -> Result<Id, String> {
        let node_id = self.string()?;
        let generation = self.u64()?;
        let addr = self.addr()?;
        Ok(Id { node_id, generation, addr })
    }
    fn digest(&mut self) -> Result<Vec<(Id, NodeDigest)>, String> {
        let n = self.u16()? as usize;
        let mut v = Vec::with_capacity(n.min(4096));
        for _ in 0..n {
            let id = self.id()?;
            let heartbeat = self.u64()?;
            let gc = self.u64()?;
            let max = self.u64()?;
            v.push((id, NodeDigest { heartbeat, gc, max }));
        }
        Ok(v)
    }
    fn op(&mut self) -> Result<Op, String> {
        match self.u8()? {
            0 => {
                let id = self.id()?;
                let gc = self.u64()?;
                let from = self.u64()?;
                Ok(Op::Node { id, gc, from })
            }
            1 => {
                let key = self.string()?;
                let value = self.string()?;
                let version = self.u64()?;
                let status = self.u8()?;
                if status > 2 {
                    return Err(format!("status {status}"));
                }
                Ok(Op::Kv(Kv { key, value, version, status }))
            }
            2 => Ok(Op::SetMax(self.u64()?)),
            t => Err(format!("op tag {t}")),
        }
    }
    fn stream(&mut self) -> Result<(Vec<Op>, StreamInfo), String> {
        let start = self.buf.len();
        let mut data: Vec<u8> = Vec::new();
        let mut info = StreamInfo::default();
        loop {
            match self.u8()? {
                0 => break,
                1 => {
                    let n = self.u16()? as usize;
                    let b = self.take(n)?;
                    let d = zstd::bulk::decompress(b, u16::MAX as usize).map_err(|e| format!("zstd: {e}"))?;
                    data.extend_from_slice(&d);
                    info.compressed_blocks += 1;
                }
                2 => {
                    let n = self.u16()? as usize;
                    let b = self.take(n)?;
                    data.extend_from_slice(b);
                    info.raw_blocks += 1;
                }
                t => return Err(format!("block tag {t}")),
            }
        }
        info.payload_len = start - self.buf.len();
        let mut inner = Reader { buf: &data };
        let mut ops = Vec::new();
        while !inner.buf.is_empty() {
            ops.push(inner.op()?);
        }
        Ok((ops, info))
    }
}

/// Decodes one datagram. Returns the message, stream info (for deltas) and bytes consumed.
pub fn decode(bytes: &[u8]) -> Result<(Msg, StreamInfo, usize), String> {
    let mut r = Reader { buf: bytes };
    if r.u16()? != MAGIC {
        return Err("magic".into());
    }
    if r.u8()? != 0 {
        return Err("protocol version".into());
    }
    let (msg, info) = match r.u8()? {
        0 => {
            let digest = r.digest()?;
            let cluster = r.string()?;
            (Msg::Syn { digest, cluster }, StreamInfo::default())
        }
        1 => {
            let digest = r.digest()?;
            let (ops, info) = r.stream()?;
            (Msg::SynAck { digest, ops }, info)
        }
        2 => {
            let (ops, info) = r.stream()?;
            (Msg::Ack { ops }, info)
        }
        3 => (Msg::BadCluster, StreamInfo::default()),
        t => return Err(format!("message tag {t}")),
    };
    Ok((msg, info, bytes.len() - r.buf.len()))
}

// ---------------------------------------------------------------- encoder

pub fn put_u16(b: &mut Vec<u8>, v: u16) {
    b.extend_from_slice(&v.to_le_bytes());
}
pub fn put_u64(b: &mut Vec<u8>, v: u64) {
    b.extend_from_slice(&v.to_le_bytes());
}
pub fn put_str(b: &mut Vec<u8>, s: &str) {
    put_u16(b, s.len() as u16);
    b.extend_from_slice(s.as_bytes());
}
pub fn put_addr(b: &mut Vec<u8>, a: &SocketAddr) {
    match a.ip() {
        IpAddr::V4(ip) => {
            b.push(4);
            b.extend_from_slice(&ip.octets());
        }
        IpAddr::V6(ip) => {
            b.push(6);
            b.extend_from_slice(&ip.octets());
        }
    }
    put_u16(b, a.port());
}
pub fn put_id(b: &mut Vec<u8>, id: &Id) {
    put_str(b, &id.node_id);
    put_u64(b, id.generation);
    put_addr(b, &id.addr);
}
pub fn put_digest(b: &mut Vec<u8>, d: &[(Id, NodeDigest)]) {
    put_u16(b, d.len() as u16);
    for (id, nd) in d {
        put_id(b, id);
        put_u64(b, nd.heartbeat);
        put_u64(b, nd.gc);
        put_u64(b, nd.max);
    }
}
pub fn put_op(b: &mut Vec<u8>, op: &Op) {
    match op {
        Op::Node { id, gc, from } => {
            b.push(0);
            put_id(b, id);
            put_u64(b, *gc);
            put_u64(b, *from);
        }
        Op::Kv(kv) => {
            b.push(1);
            put_str(b, &kv.key);
            put_str(b, &kv.value);
            put_u64(b, kv.version);
            b.push(kv.status);
        }
        Op::SetMax(v) => {
            b.push(2);
            put_u64(b, *v);
        }
    }
}

/// How the independent encoder cuts the op bytes into blocks.
#[derive(Clone, Copy, Debug)]
pub enum BlockPlan {
    /// Blocks of at most `size` bytes; compressed when that is shorter, raw otherwise.
    Auto { size: usize },
    /// Blocks of at most `size` bytes, all raw.
    Raw { size: usize },
    /// Blocks of at most `size` bytes, all compressed (raw only if compression cannot fit u16).
    Zstd { size: usize },
}

pub fn put_stream(b: &mut Vec<u8>, ops: &[Op], plan: BlockPlan) {
    let mut data = Vec::new();
    for op in ops {
        put_op(&mut data, op);
    }
    let (size, mode) = match plan {
        BlockPlan::Auto { size } => (size, 0),
        BlockPlan::Raw { size } => (size, 1),
        BlockPlan::Zstd { size } => (size, 2),
    };
    let size = size.clamp(1, u16::MAX as usize);
    for chunk in data.chunks(size) {
        let compressed = if mode == 1 { None } else { zstd::bulk::compress(chunk, 0).ok() };
        let use_compressed = match (&compressed, mode) {
            (Some(c), 0) => c.len() < chunk.len(),
            (Some(c), 2) => c.len() <= u16::MAX as usize,
            _ => false,
        };
        if use_compressed {
            let c = compressed.unwrap();
            b.push(1);
            put_u16(b, c.len() as u16);
            b.extend_from_slice(&c);
        } else {
            b.push(2);
            put_u16(b, chunk.len() as u16);
            b.extend_from_slice(chunk);
        }
    }
    b.push(0);
}

pub fn encode(msg: &Msg, plan: BlockPlan) -> Vec<u8> {
    let mut b = Vec::new();
    put_u16(&mut b, MAGIC);
    b.push(0);
    match msg {
        Msg::Syn { digest, cluster } => {
            b.push(0);
            put_digest(&mut b, digest);
            put_str(&mut b, cluster);
        }
        Msg::SynAck { digest, ops } => {
            b.push(1);
            put_digest(&mut b, digest);
            put_stream(&mut b, ops, plan);
        }
        Msg::Ack { ops } => {
            b.push(2);
            put_stream(&mut b, ops, plan);
        }
        Msg::BadCluster => b.push(3),
    }
    b
}

pub fn digest_len(d: &[(Id, NodeDigest)]) -> usize {
    let mut b = Vec::new();
    put_digest(&mut b, d);
    b.len()
}

pub fn ops_from_deltas(nds: &[NodeDelta]) -> Vec<Op> {
    let mut ops = Vec::new();
    for nd in nds {
        ops.push(Op::Node { id: nd.id.clone(), gc: nd.gc, from: nd.from });
        for kv in &nd.kvs {
            ops.push(Op::Kv(kv.clone()));
        }
        if nd.has_setmax {
            ops.push(Op::SetMax(nd.max));
        }
    }
    ops
}
