//! Shared types: violations, outcomes, statistics, value specs, panic capture.

use std::cell::RefCell;
use std::collections::BTreeMap;

use serde::{Deserialize, Serialize};

use crate::rng::Rng;

#[derive(Clone, Debug, Serialize, Deserialize, PartialEq)]
pub struct Violation {
    pub property: String,
    /// Stable oracle code, e.g. "C14.refused"; minimisation keeps (property, code).
    pub code: String,
    pub step: usize,
    pub detail: String,
    /// Signature used to match known findings (empty for ordinary violations).
    #[serde(default)]
    pub finding: String,
}

#[derive(Clone, Debug, Default)]
pub struct Stats(pub BTreeMap<String, u64>);

impl Stats {
    pub fn inc(&mut self, k: &str) {
        self.add(k, 1);
    }
    pub fn add(&mut self, k: &str, n: u64) {
        if n > 0 {
            *self.0.entry(k.to_string()).or_insert(0) += n;
        }
    }
    pub fn max(&mut self, k: &str, n: u64) {
        let e = self.0.entry(k.to_string()).or_insert(0);
        if n > *e {
            *e = n;
        }
    }
    pub fn get(&self, k: &str) -> u64 {
        self.0.get(k).copied().unwrap_or(0)
    }
    pub fn merge(&mut self, other: &Stats) {
        for (k, v) in &other.0 {
            if k.starts_with("max_") {
                self.max(k, *v);
            } else {
                self.add(k, *v);
            }
        }
    }
}

#[derive(Clone, Debug, Default)]
pub struct Outcome {
    pub violation: Option<Violation>,
    pub trace: u64,
    pub stats: Stats,
    pub steps: u64,
    pub sim_ms: u64,
    /// Did this property's oracle have something to decide in this run (rule per property)?
    pub nontrivial: bool,
    /// Abstract states / transitions reached (hashed), for the coverage measure.
    pub abs_states: Vec<u64>,
    pub abs_transitions: Vec<u64>,
    /// Known-finding hits (classified, do not end the run).
    pub known_hits: Vec<String>,
    /// A panic or violation that belongs to another property ended the run.
    pub foreign_abort: Option<String>,
}

#[derive(Clone, Debug, Serialize, Deserialize, PartialEq)]
pub struct ValSpec {
    pub class: u8,
    pub len: u32,
    pub seed: u64,
}

const WORDS: &[&str] = &[
    "the", "quick", "brown", "fox", "jumps", "over", "lazy", "dog", "cluster", "gossip", "node", "state", "version",
    "heartbeat", "delta", "digest", "index", "search", "shard", "split", "merge", "commit", "ready", "alive",
];

impl ValSpec {
    pub fn render(&self) -> String {
        let len = self.len as usize;
        let mut r = Rng::new(self.seed ^ 0x7a11);
        let mut s = String::with_capacity(len + 8);
        let tag = format!("{:x}-", self.seed & 0xffff_ffff);
        if len >= tag.len() + 2 {
            s.push_str(&tag);
        }
        match self.class {
            0 => {
                while s.len() < len {
                    s.push('a');
                }
            }
            1 => {
                while s.len() < len {
                    s.push_str(*r.pick(WORDS));
                    s.push(' ');
                }
            }
            2 => {
                while s.len() < len {
                    s.push((0x20 + r.below(0x5f) as u8) as char);
                }
            }
            _ => {
                // dense UTF-8: mix of 1..4 byte code points so that byte values spread widely
                while s.len() < len {
                    let c = match r.below(4) {
                        0 => r.range(0x20, 0x7e) as u32,
                        1 => r.range(0x80, 0x7ff) as u32,
                        2 => {
                            let mut c = r.range(0x800, 0xffff) as u32;
                            if (0xd800..=0xdfff).contains(&c) {
                                c = 0x4e00 + (c & 0xff);
                            }
                            c
                        }
                        _ => r.range(0x10000, 0x10ffff) as u32,
                    };
                    if let Some(ch) = char::from_u32(c) {
                        s.push(ch);
                    }
                }
            }
        }
        // cut back to at most `len` bytes on a char boundary
        let mut cut = len.min(s.len());
        while cut > 0 && !s.is_char_boundary(cut) {
            cut -= 1;
        }
        s.truncate(cut);
        s
    }
}

pub fn fnv(s: &[u8]) -> u64 {
    let mut h = 0xcbf2_9ce4_8422_2325u64;
    for b in s {
        h = (h ^ *b as u64).wrapping_mul(0x0000_0100_0000_01b3);
    }
    h
}

// ---------------------------------------------------------------- panic capture

thread_local! {
    static LAST_PANIC: RefCell<Option<String>> = const { RefCell::new(None) };
    static GUARDED: std::cell::Cell<bool> = const { std::cell::Cell::new(false) };
}

pub fn install_panic_hook() {
    std::panic::set_hook(Box::new(|info| {
        let msg = info
            .payload()
            .downcast_ref::<String>()
            .cloned()
            .or_else(|| info.payload().downcast_ref::<&str>().map(|s| s.to_string()))
            .unwrap_or_else(|| "<non-string panic>".to_string());
        let loc = info.location().map(|l| format!("{}:{}", l.file(), l.line())).unwrap_or_default();
        let short: String = msg.chars().take(300).collect();
        if !GUARDED.with(|g| g.get()) {
            eprintln!("harness panic (outside guarded code): {short} at {loc}");
        }
        LAST_PANIC.with(|p| *p.borrow_mut() = Some(format!("{short} at {loc}")));
    }));
}

/// Runs `f`, returning Err(panic message with location) if it panicked.
pub fn guarded<T>(f: impl FnOnce() -> T) -> Result<T, String> {
    LAST_PANIC.with(|p| *p.borrow_mut() = None);
    let was = GUARDED.with(|g| g.replace(true));
    let r = std::panic::catch_unwind(std::panic::AssertUnwindSafe(f));
    GUARDED.with(|g| g.set(was));
    match r {
        Ok(v) => Ok(v),
        Err(_) => Err(LAST_PANIC.with(|p| p.borrow_mut().take()).unwrap_or_else(|| "panic".to_string())),
    }
}
