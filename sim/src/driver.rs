//! The check driver: seeded search over runs, minimisation, replay files, evidence.

use std::collections::{BTreeMap, HashSet};
use std::path::{Path, PathBuf};
use std::sync::atomic::{AtomicBool, AtomicU64, Ordering};
use std::sync::{Arc, Mutex};
use std::time::Instant;

use serde::{Deserialize, Serialize};
use serde_json::{json, Value};

use crate::common::{Outcome, Stats, Violation};
use crate::engine::{on_fresh_thread, Engine};
use crate::rng::mix;

#[derive(Clone, Debug, Serialize, Deserialize)]
pub struct ReplayFile {
    pub format: u32,
    pub engine: String,
    pub property: String,
    pub profile: String,
    pub seed: u64,
    pub run_index: u64,
    pub thread_seed: u64,
    /// "violation": replaying must violate (property, code); "pass": must not violate.
    pub expect: String,
    pub config: Value,
    pub commands: Vec<Value>,
    pub violation: Option<Violation>,
    pub trace: String,
    #[serde(default)]
    pub original_commands: usize,
    #[serde(default)]
    pub note: String,
}

pub fn prop_hash(p: &str) -> u64 {
    crate::common::fnv(p.as_bytes())
}

pub fn verif_root() -> PathBuf {
    if let Ok(p) = std::env::var("VERIF_ROOT") {
        return PathBuf::from(p);
    }
    // the binary lives in <root>/sim/target/release/sim
    let exe = std::env::current_exe().unwrap_or_default();
    let mut p = exe.as_path();
    for _ in 0..4 {
        p = p.parent().unwrap_or(Path::new("/verif"));
    }
    if p.join("properties.jsonl").exists() {
        p.to_path_buf()
    } else {
        PathBuf::from("/verif")
    }
}

pub fn run_replay(engine: &dyn Engine, rf: &ReplayFile, log: bool) -> (Outcome, Vec<String>) {
    // SAFETY of lifetimes: the engine is 'static in practice (unit structs); clone what we need.
    let cfg = rf.config.clone();
    let cmds = rf.commands.clone();
    let prop = rf.property.clone();
    let eng: &'static dyn Engine = unsafe { std::mem::transmute(engine) };
    on_fresh_thread(rf.thread_seed, move || eng.replay(&cfg, &cmds, &prop, log))
}

fn same_class(v: &Option<Violation>, prop: &str, code: &str) -> bool {
    matches!(v, Some(v) if v.property == prop && v.code == code)
}

/// ddmin over the command list, then single-command removal, keeping (property, code).
pub fn minimise(engine: &dyn Engine, rf: &ReplayFile, budget_replays: usize, budget_s: f64) -> ReplayFile {
    let known_mode = rf.violation.is_none();
    let v = rf.violation.clone().unwrap_or(Violation { property: rf.property.clone(), code: "known".into(), step: 0, detail: String::new(), finding: String::new() });
    let t0 = Instant::now();
    let mut best = rf.clone();
    let mut replays = 0usize;
    let mut test = |cmds: &Vec<Value>, replays: &mut usize| -> Option<(Violation, u64)> {
        *replays += 1;
        let mut cand = rf.clone();
        cand.commands = cmds.clone();
        let (o, _) = run_replay(engine, &cand, false);
        if known_mode {
            if o.violation.is_none() && !o.known_hits.is_empty() {
                Some((v.clone(), o.trace))
            } else {
                None
            }
        } else if same_class(&o.violation, &v.property, &v.code) {
            Some((o.violation.unwrap(), o.trace))
        } else {
            None
        }
    };
    // cut everything after the violating step first
    let mut cmds = rf.commands.clone();
    let mut n = 2usize;
    while cmds.len() >= 2 && replays < budget_replays && t0.elapsed().as_secs_f64() < budget_s {
        let chunk = (cmds.len() + n - 1) / n;
        let mut reduced = false;
        let mut i = 0;
        while i < cmds.len() && replays < budget_replays && t0.elapsed().as_secs_f64() < budget_s {
            let end = (i + chunk).min(cmds.len());
            let mut cand: Vec<Value> = Vec::with_capacity(cmds.len());
            cand.extend_from_slice(&cmds[..i]);
            cand.extend_from_slice(&cmds[end..]);
            if let Some((viol, trace)) = test(&cand, &mut replays) {
                cmds = cand;
                best.commands = cmds.clone();
                best.violation = if known_mode { None } else { Some(viol) };
                best.trace = format!("{trace:016x}");
                reduced = true;
                n = n.saturating_sub(1).max(2);
            } else {
                i = end;
            }
        }
        if !reduced {
            if chunk <= 1 {
                break;
            }
            n = (n * 2).min(cmds.len());
        }
    }
    best.original_commands = rf.commands.len();
    best.note = format!("minimised with {replays} replays from {} to {} commands", rf.commands.len(), best.commands.len());
    best
}

pub struct CheckPlan {
    pub prop: String,
    pub tier: String,
    pub seed: u64,
    pub engines: Vec<(Arc<dyn Engine>, u64)>, // engine, number of runs
    pub budget_s: f64,
    pub workers: usize,
}

#[derive(Default)]
struct Agg {
    runs: u64,
    nontrivial_hashes: HashSet<u64>,
    all_hashes: HashSet<u64>,
    stats: Stats,
    steps: u64,
    sim_ms: u64,
    abs_states: HashSet<u64>,
    abs_transitions: HashSet<u64>,
    foreign: u64,
    foreign_samples: Vec<String>,
    known_hits: u64,
    known_samples: Vec<String>,
    violations: Vec<(u64, String, ReplayFile)>,
    samples: Vec<Value>,
    per_engine_runs: BTreeMap<String, u64>,
    per_profile_runs: BTreeMap<String, u64>,
}

pub struct CheckResult {
    pub exit: i32,
}

fn sample_of(engine: &str, profile: &str, idx: u64, seed: u64, cmds: &[Value], outcome: &Outcome) -> Value {
    let shown: Vec<Value> = cmds.iter().take(40).cloned().collect();
    json!({"engine": engine, "profile": profile, "run_index": idx, "run_seed": seed, "commands_total": cmds.len(),
           "first_commands": shown, "steps": outcome.steps, "simulated_ms": outcome.sim_ms, "trace": format!("{:016x}", outcome.trace)})
}

pub fn run_check(plan: &CheckPlan) -> CheckResult {
    let t0 = Instant::now();
    let root = verif_root();
    let agg = Arc::new(Mutex::new(Agg::default()));
    let mut regression_violation: Option<(PathBuf, Violation)> = None;
    let mut known_lines: Vec<String> = Vec::new();
    let mut regressions_run = 0u64;

    // 1. committed replays for this property (known findings must still reproduce and stay
    //    classified; repaired defects must stay repaired)
    let kdir = root.join("known_findings");
    if let Ok(rd) = std::fs::read_dir(&kdir) {
        let mut files: Vec<PathBuf> = rd.filter_map(|e| e.ok()).map(|e| e.path()).filter(|p| p.to_string_lossy().ends_with(".replay.json")).collect();
        files.sort();
        for f in files {
            let Ok(txt) = std::fs::read_to_string(&f) else { continue };
            let Ok(rf) = serde_json::from_str::<ReplayFile>(&txt) else {
                eprintln!("harness error: cannot parse {}", f.display());
                return CheckResult { exit: 2 };
            };
            if rf.property != plan.prop {
                continue;
            }
            let Some((eng, _)) = plan.engines.iter().find(|(e, _)| e.name() == rf.engine) else { continue };
            regressions_run += 1;
            let (o, _) = run_replay(eng.as_ref(), &rf, false);
            match rf.expect.as_str() {
                "pass" => {
                    if let Some(v) = o.violation {
                        regression_violation = Some((f.clone(), v));
                        break;
                    }
                }
                "known" => {
                    if o.known_hits.is_empty() && o.violation.is_none() {
                        println!("NOTE: known finding {} no longer reproduces from {} (repaired? move it to fixed)", rf.note, f.display());
                    } else if let Some(v) = o.violation {
                        regression_violation = Some((f.clone(), v));
                        break;
                    } else {
                        known_lines.push(format!("KNOWN-FINDING: property={} {}", plan.prop, o.known_hits[0]));
                    }
                }
                _ => {}
            }
        }
    }
    if let Some((f, v)) = regression_violation {
        println!("violation {} at step {}: {}", v.code, v.step, v.detail);
        println!("VIOLATION property={} replay={}", plan.prop, f.display());
        write_evidence(plan, &agg.lock().unwrap(), t0.elapsed().as_secs_f64(), 1, regressions_run, &root);
        return CheckResult { exit: 1 };
    }

    // 2. seeded search
    let deadline_hit = Arc::new(AtomicBool::new(false));
    for (eng, runs) in &plan.engines {
        let next = Arc::new(AtomicU64::new(0));
        let limit = Arc::new(AtomicU64::new(*runs));
        let mut handles = Vec::new();
        let engine_index = plan.engines.iter().position(|(e, _)| e.name() == eng.name()).unwrap_or(0) as u64;
        for slot in 0..plan.workers {
            let (next, limit, agg, eng, deadline_hit) = (next.clone(), limit.clone(), agg.clone(), eng.clone(), deadline_hit.clone());
            let prop = plan.prop.clone();
            let seed = plan.seed;
            let budget_s = plan.budget_s;
            handles.push(std::thread::spawn(move || loop {
                let i = next.fetch_add(1, Ordering::SeqCst);
                if i >= limit.load(Ordering::SeqCst) {
                    break;
                }
                if t0.elapsed().as_secs_f64() > budget_s {
                    deadline_hit.store(true, Ordering::SeqCst);
                    break;
                }
                let run_seed = mix(mix(seed, prop_hash(&prop)), mix(i, prop_hash(eng.name())));
                let (e2, p2) = (eng.clone(), prop.clone());
                crate::abort::enter(slot, engine_index, i);
                let rec = on_fresh_thread(run_seed, move || e2.generate(run_seed, &p2));
                crate::abort::leave(slot);
                let mut a = agg.lock().unwrap();
                a.runs += 1;
                *a.per_engine_runs.entry(rec.engine.to_string()).or_insert(0) += 1;
                *a.per_profile_runs.entry(format!("{}/{}", rec.engine, rec.profile)).or_insert(0) += 1;
                a.steps += rec.outcome.steps;
                a.sim_ms += rec.outcome.sim_ms;
                a.stats.merge(&rec.outcome.stats);
                a.all_hashes.insert(rec.outcome.trace);
                if rec.outcome.nontrivial {
                    a.nontrivial_hashes.insert(rec.outcome.trace);
                }
                a.abs_states.extend(rec.outcome.abs_states.iter().copied());
                a.abs_transitions.extend(rec.outcome.abs_transitions.iter().copied());
                if let Some(f) = &rec.outcome.foreign_abort {
                    a.foreign += 1;
                    if a.foreign_samples.len() < 3 {
                        a.foreign_samples.push(f.clone());
                    }
                }
                if !rec.outcome.known_hits.is_empty() {
                    a.known_hits += rec.outcome.known_hits.len() as u64;
                    if a.known_samples.len() < 3 {
                        a.known_samples.push(format!("run {i} (seed {run_seed}): {}", rec.outcome.known_hits[0]));
                    }
                }
                if a.samples.len() < 4 && rec.outcome.nontrivial && (i % 7 == 0 || a.samples.is_empty()) {
                    let s = sample_of(rec.engine, &rec.profile, i, run_seed, &rec.cmds, &rec.outcome);
                    a.samples.push(s);
                }
                if let Some(v) = &rec.outcome.violation {
                    limit.fetch_min(i, Ordering::SeqCst);
                    let rf = ReplayFile {
                        format: 1,
                        engine: rec.engine.to_string(),
                        property: prop.clone(),
                        profile: rec.profile.clone(),
                        seed,
                        run_index: i,
                        thread_seed: run_seed,
                        expect: "violation".into(),
                        config: rec.cfg.clone(),
                        commands: rec.cmds.clone(),
                        violation: Some(v.clone()),
                        trace: format!("{:016x}", rec.outcome.trace),
                        original_commands: rec.cmds.len(),
                        note: String::new(),
                    };
                    a.violations.push((i, rec.engine.to_string(), rf));
                }
            }));
        }
        for h in handles {
            let _ = h.join();
        }
        if !agg.lock().unwrap().violations.is_empty() {
            break;
        }
    }

    let mut a = agg.lock().unwrap();
    a.violations.sort_by_key(|v| v.0);
    let wall = t0.elapsed().as_secs_f64();
    if a.samples.is_empty() {
        // make sure the evidence shows at least one actual run
        if let Some((eng, _)) = plan.engines.first() {
            let run_seed = mix(mix(plan.seed, prop_hash(&plan.prop)), mix(0, prop_hash(eng.name())));
            let (e2, p2) = (eng.clone(), plan.prop.clone());
            let rec = on_fresh_thread(run_seed, move || e2.generate(run_seed, &p2));
            let s = sample_of(rec.engine, &rec.profile, 0, run_seed, &rec.cmds, &rec.outcome);
            a.samples.push(s);
        }
    }
    if let Some((idx, ename, rf)) = a.violations.first().cloned() {
        let eng = plan.engines.iter().find(|(e, _)| e.name() == ename).unwrap().0.clone();
        let v = rf.violation.clone().unwrap();
        println!("violation {} in run {idx} ({} commands) at step {}: {}", v.code, rf.commands.len(), v.step, v.detail);
        let min = minimise(eng.as_ref(), &rf, 2000, 60.0);
        let dir = root.join("replays");
        let _ = std::fs::create_dir_all(&dir);
        let path = dir.join(format!("{}-seed{}-run{}.replay.json", plan.prop, plan.seed, idx));
        std::fs::write(&path, serde_json::to_string_pretty(&min).unwrap()).expect("write replay");
        // verify in a fresh process
        let exe = std::env::current_exe().unwrap();
        let out = std::process::Command::new(exe).arg("replay").arg(&path).output();
        let verified = matches!(&out, Ok(o) if o.status.code() == Some(1));
        if !verified {
            eprintln!("harness error: minimised replay does not reproduce in a fresh process; keeping the unminimised run");
            let mut rf2 = rf.clone();
            rf2.note = "unminimised (minimised file failed verification)".into();
            std::fs::write(&path, serde_json::to_string_pretty(&rf2).unwrap()).expect("write replay");
        }
        let mv = min.violation.clone().unwrap();
        println!("minimised to {} commands: {} at step {}: {}", min.commands.len(), mv.code, mv.step, mv.detail);
        println!("VIOLATION property={} replay={}", plan.prop, path.display());
        write_evidence(plan, &a, wall, 1, regressions_run, &root);
        return CheckResult { exit: 1 };
    }
    for l in &known_lines {
        println!("{l}");
    }
    if known_lines.is_empty() && a.known_hits > 0 {
        // found by search only: still a listed finding (classified by its signature)
        println!("KNOWN-FINDING: property={} {}", plan.prop, a.known_samples.first().cloned().unwrap_or_default());
    }
    if deadline_hit.load(Ordering::SeqCst) {
        println!("note: wall-clock cap of {}s reached after {} runs", plan.budget_s, a.runs);
    }
    println!(
        "property={} tier={} seed={} runs={} nontrivial_distinct={} steps={} simulated_s={} wall_s={:.1} known_finding_hits={} foreign_aborts={} OK",
        plan.prop, plan.tier, plan.seed, a.runs, a.nontrivial_hashes.len(), a.steps, a.sim_ms / 1000, wall, a.known_hits, a.foreign
    );
    write_evidence(plan, &a, wall, 0, regressions_run, &root);
    CheckResult { exit: 0 }
}

fn write_evidence(plan: &CheckPlan, a: &Agg, wall: f64, violations: i64, regressions_run: u64, root: &Path) {
    let faults: BTreeMap<&String, &u64> = a.stats.0.iter().filter(|(k, _)| k.starts_with("fault_")).collect();
    let probes: BTreeMap<&String, &u64> = a.stats.0.iter().filter(|(k, _)| k.starts_with("probe_")).collect();
    let other: BTreeMap<&String, &u64> = a.stats.0.iter().filter(|(k, _)| !k.starts_with("probe_") && !k.starts_with("fault_")).collect();
    let mut real: Vec<&str> = Vec::new();
    let mut stub: Vec<&str> = Vec::new();
    for (e, _) in &plan.engines {
        for c in e.real_components() {
            if !real.contains(&c) {
                real.push(c);
            }
        }
        for c in e.stub_components() {
            if !stub.contains(&c) {
                stub.push(c);
            }
        }
    }
    let runs_per_hour = if wall > 0.0 { (a.runs as f64 / wall * 3600.0) as u64 } else { 0 };
    let zero_probes: Vec<&str> = crate::props::expected_probes(&plan.prop).into_iter().filter(|p| a.stats.get(p) == 0).collect();
    let ev = json!({
        "property_id": plan.prop,
        "tier": plan.tier,
        "seed": plan.seed,
        "level": "exploration",
        "wall_s": wall,
        "violations": violations,
        "coverage": {
            "evaluations": a.runs.max(1),
            "distinct_nontrivial": a.nontrivial_hashes.len(),
            "rule": crate::props::rule(&plan.prop),
            "samples": a.samples,
            "technique": "deterministic simulation with fault injection: seeded search over schedules and fault sequences",
            "runs_per_engine": a.per_engine_runs,
            "runs_per_profile": a.per_profile_runs,
            "distinct_traces": a.all_hashes.len(),
            "commands_executed": a.steps,
            "simulated_seconds": a.sim_ms / 1000,
            "runs_per_hour": runs_per_hour,
            "seeds_per_hour": runs_per_hour,
            "faults_injected": faults,
            "probes": probes,
            "probes_at_zero": zero_probes,
            "counters": other,
            "distinct_abstract_states": a.abs_states.len(),
            "distinct_abstract_transitions": a.abs_transitions.len(),
            "abstract_state_measure": "per (node, member) at each evaluation: order pattern of (copy watermark, copy max version, owner max version) x {self, live, dead}; transitions: order pattern of (delta watermark, delta max, copy watermark, copy max, delta start) x {rejected, applied, applied after reset}",
            "regression_replays_run": regressions_run,
            "known_finding_hits": a.known_hits,
            "known_finding_samples": a.known_samples,
            "foreign_aborts": a.foreign,
            "foreign_abort_samples": a.foreign_samples,
            "components_real": real,
            "components_stubbed": stub,
            "workers": plan.workers,
        },
        "assumptions": crate::props::assumptions(&plan.prop),
    });
    let dir = root.join("evidence");
    let _ = std::fs::create_dir_all(&dir);
    let path = dir.join(format!("{}.json", plan.prop));
    if let Err(e) = std::fs::write(&path, serde_json::to_string_pretty(&ev).unwrap()) {
        eprintln!("harness error: cannot write {}: {e}", path.display());
    }
}

/// `sim replay <file>`: exit 1 when the recorded violation reproduces (same property and code,
/// same step, same trace hash), 0 when an expected-pass file passes, 2 otherwise.
pub fn cmd_replay(engines: &[Arc<dyn Engine>], path: &str, verbose: bool) -> i32 {
    let Ok(txt) = std::fs::read_to_string(path) else {
        eprintln!("harness error: cannot read {path}");
        return 2;
    };
    let rf: ReplayFile = match serde_json::from_str(&txt) {
        Ok(r) => r,
        Err(e) => {
            eprintln!("harness error: cannot parse {path}: {e}");
            return 2;
        }
    };
    let Some(eng) = engines.iter().find(|e| e.name() == rf.engine) else {
        eprintln!("harness error: unknown engine {}", rf.engine);
        return 2;
    };
    // a recorded abort can only be reproduced in a child process: the reproduction is its death
    let is_abort = rf.violation.as_ref().map(|v| v.code.ends_with(".abort")).unwrap_or(false);
    let is_hang = rf.violation.as_ref().map(|v| v.code.ends_with(".hang")).unwrap_or(false);
    if is_hang && std::env::var("VERIF_REPLAY_INPROC").is_err() {
        let exe = std::env::current_exe().expect("own path");
        let Ok(mut child) = std::process::Command::new(exe).arg("replay").arg(path).env("VERIF_REPLAY_INPROC", "1").stdout(std::process::Stdio::null()).stderr(std::process::Stdio::null()).spawn() else {
            eprintln!("harness error: cannot start the replay child");
            return 2;
        };
        let limit = std::time::Duration::from_secs(crate::abort::hang_s());
        let t0 = Instant::now();
        loop {
            match child.try_wait() {
                Ok(Some(_)) => {
                    println!("recorded hang does not reproduce on this tree (the replay ended after {:.1} s)", t0.elapsed().as_secs_f64());
                    return 0;
                }
                Ok(None) if t0.elapsed() > limit => {
                    let _ = child.kill();
                    let _ = child.wait();
                    println!("violation {}: the replay process did not finish the recorded commands within {} s of wall-clock time", rf.violation.as_ref().unwrap().code, limit.as_secs());
                    println!("VIOLATION property={} replay={}", rf.property, path);
                    return 1;
                }
                Ok(None) => std::thread::sleep(std::time::Duration::from_millis(200)),
                Err(e) => {
                    eprintln!("harness error: {e}");
                    return 2;
                }
            }
        }
    }
    if is_abort && std::env::var("VERIF_REPLAY_INPROC").is_err() {
        let exe = std::env::current_exe().expect("own path");
        let st = std::process::Command::new(exe).arg("replay").arg(path).env("VERIF_REPLAY_INPROC", "1").stdout(std::process::Stdio::null()).stderr(std::process::Stdio::null()).status();
        use std::os::unix::process::ExitStatusExt;
        return match st {
            Ok(s) if s.signal().is_some() || s.code() == Some(134) => {
                println!("violation {}: the replay process was killed ({:?}) while executing the recorded commands", rf.violation.as_ref().unwrap().code, s);
                println!("VIOLATION property={} replay={}", rf.property, path);
                1
            }
            Ok(_) => {
                println!("recorded abort does not reproduce on this tree");
                0
            }
            Err(e) => {
                eprintln!("harness error: cannot start the replay child: {e}");
                2
            }
        };
    }
    let (o, log) = run_replay(eng.as_ref(), &rf, verbose);
    if verbose {
        for l in &log {
            println!("{l}");
        }
    }
    for k in &o.known_hits {
        println!("KNOWN-FINDING: property={} {k}", rf.property);
    }
    match (&o.violation, &rf.violation) {
        (Some(v), Some(rv)) => {
            println!("violation {} at step {}: {}", v.code, v.step, v.detail);
            let trace = format!("{:016x}", o.trace);
            if v.property == rv.property && v.code == rv.code && v.step == rv.step && trace == rf.trace {
                println!("VIOLATION property={} replay={}", rf.property, path);
                1
            } else if v.property == rv.property && v.code == rv.code {
                println!("replay reached the same violation class but differs from the recording (step {} vs {}, trace {} vs {})", v.step, rv.step, trace, rf.trace);
                println!("VIOLATION property={} replay={}", rf.property, path);
                1
            } else {
                eprintln!("harness error: replay reached a different violation than recorded ({} vs {})", v.code, rv.code);
                2
            }
        }
        (Some(v), None) => {
            println!("violation {} at step {}: {}", v.code, v.step, v.detail);
            println!("VIOLATION property={} replay={}", rf.property, path);
            1
        }
        (None, Some(rv)) if rf.expect == "violation" => {
            println!("recorded violation {} does not reproduce on this tree", rv.code);
            0
        }
        _ => {
            println!("replay passed: no violation");
            0
        }
    }
}

/// Dev tool: write run `idx` of a check as a replay file (optionally minimised on its known hit).
/// `sim isolate`: one run in this process with the command tee on. Returns normally (0) when the run
/// does not kill the process.
pub fn cmd_isolate(engine: &Arc<dyn Engine>, prop: &str, seed: u64, idx: u64, tee: &str) -> i32 {
    let run_seed = mix(mix(seed, prop_hash(prop)), mix(idx, prop_hash(engine.name())));
    crate::abort::tee_start(tee);
    let (e2, p2) = (engine.clone(), prop.to_string());
    let rec = on_fresh_thread(run_seed, move || e2.generate(run_seed, &p2));
    println!("run {idx} of {} ended normally ({} commands)", engine.name(), rec.cmds.len());
    0
}

/// `sim abortreplay`: turns the tee of an aborted run into a replay file (nothing is executed).
pub fn cmd_abortreplay(engine: &Arc<dyn Engine>, prop: &str, seed: u64, idx: u64, tee: &str, out: &str, kind: &str) -> i32 {
    let Ok(txt) = std::fs::read_to_string(tee) else {
        eprintln!("harness error: cannot read {tee}");
        return 2;
    };
    let mut lines = txt.lines().filter_map(|l| serde_json::from_str::<Value>(l).ok());
    let Some(head) = lines.next() else {
        eprintln!("harness error: empty tee {tee}");
        return 2;
    };
    let commands: Vec<Value> = lines.collect();
    let run_seed = mix(mix(seed, prop_hash(prop)), mix(idx, prop_hash(engine.name())));
    let rf = ReplayFile {
        format: 1,
        engine: engine.name().to_string(),
        property: prop.to_string(),
        profile: head["profile"].as_str().unwrap_or("").to_string(),
        seed,
        run_index: idx,
        thread_seed: run_seed,
        expect: "violation".into(),
        config: head["config"].clone(),
        violation: Some(Violation {
            property: prop.to_string(),
            code: format!("{prop}.{kind}"),
            step: commands.len(),
            detail: if kind == "hang" {
                "the run did not return: the code under test loops or waits forever while executing these commands".into()
            } else {
                "the process was killed (allocation failure, stack overflow or a panic while panicking) inside the code under test while executing these commands".into()
            },
            finding: String::new(),
        }),
        trace: String::new(),
        original_commands: commands.len(),
        commands,
        note: "recorded from the command tee of a run that killed the process; not minimised (every candidate would have to run in its own process)".into(),
    };
    std::fs::write(out, serde_json::to_string_pretty(&rf).unwrap()).unwrap();
    println!("wrote {out} ({} commands)", rf.commands.len());
    0
}

pub fn cmd_mkreplay(engine: &Arc<dyn Engine>, prop: &str, seed: u64, idx: u64, out: &str, known: bool) -> i32 {
    let run_seed = mix(mix(seed, prop_hash(prop)), mix(idx, prop_hash(engine.name())));
    let (e2, p2) = (engine.clone(), prop.to_string());
    let rec = on_fresh_thread(run_seed, move || e2.generate(run_seed, &p2));
    let mut rf = ReplayFile {
        format: 1,
        engine: rec.engine.to_string(),
        property: prop.to_string(),
        profile: rec.profile.clone(),
        seed,
        run_index: idx,
        thread_seed: run_seed,
        expect: if known { "known".into() } else { "pass".into() },
        config: rec.cfg.clone(),
        commands: rec.cmds.clone(),
        violation: rec.outcome.violation.clone(),
        trace: format!("{:016x}", rec.outcome.trace),
        original_commands: rec.cmds.len(),
        note: String::new(),
    };
    println!("run {idx}: {} commands, violation {:?}, known hits {}", rec.cmds.len(), rec.outcome.violation.as_ref().map(|v| &v.code), rec.outcome.known_hits.len());
    if known {
        if rec.outcome.known_hits.is_empty() {
            eprintln!("run has no known-finding hit");
            return 2;
        }
        rf = minimise(engine.as_ref(), &rf, 3000, 120.0);
        rf.expect = "known".into();
    }
    std::fs::write(out, serde_json::to_string_pretty(&rf).unwrap()).unwrap();
    println!("wrote {out} ({} commands)", rf.commands.len());
    0
}
