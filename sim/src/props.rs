//! Per-property metadata: non-triviality rule, assumptions, probes that should not stay at zero.

pub const ALL: &[&str] = &[
    "C01", "C02", "C03", "C04", "C05", "C06", "C07", "C08", "C09", "C10", "C11", "C12", "C13", "C14", "C15", "C16", "C17", "C18", "C19", "C20",
];

pub fn rule(prop: &str) -> String {
    let specific = match prop {
        "C01" => "non-trivial = the run reached the loss-free suffix and converged, or contained a complete handshake between nodes that differed on an advertised member",
        "C02" => "non-trivial = some copy was checked against a non-empty ledger of its owner's writes (every copy is compared after every command)",
        "C03" => "non-trivial = as C02: every entry of every copy compared with the owner's ledger after every command",
        "C04" => "non-trivial = at least one message was processed with the frontier check, or a local write compared with the allocation model",
        "C05" => "non-trivial = at least one message processed with the node's own state snapshotted before and after",
        "C06" => "non-trivial = a GC pass removed at least one entry and was compared with the model (E1), or a key-value sequence of at least 3 operations ran against the model (E3)",
        "C07" => "non-trivial = at least one reply carrying a non-empty delta was compared with the sender's state",
        "C08" => "non-trivial = at least one emitted message went through both codecs in both directions",
        "C09" => "non-trivial = at least one hostile datagram decoded and was processed",
        "C10" => "non-trivial = at least one evaluation found a member silent for longer than the bound (E1), or a detector history with an evaluation beyond the bound (E3)",
        "C11" => "non-trivial = at least one evaluation classified a non-self member",
        "C12" => "non-trivial = a member was removed, re-created, refused, or a message was sent while a member was quarantined",
        "C13" => "non-trivial = at least one evaluation compared the watch channel with the membership",
        "C14" => "non-trivial = at least one delta reached a receiver unchanged since the digest it answers",
        "C15" => "non-trivial = at least one expected listener call was compared",
        "C16" => "non-trivial = at least one SYN crossed between clusters",
        "C17" => "non-trivial = at least one call of the real selection function was checked",
        "C18" => "non-trivial = at least one catch-up call was checked",
        "C19" => "non-trivial = the server under test saw at least one injected transport fault or shutdown",
        "C20" => "non-trivial = at least one SYN-ACK or ACK was processed with the callback counter read before and after",
        _ => "",
    };
    format!(
        "Runs are generated from one PRNG seeded by mix(VERIF_SEED, property, run index): per-run configuration (swarm) and a command list over the engine's step language, executed against the real code. distinct = distinct trace hash (hash over every command, every byte sent and every resulting frontier); {specific}. distinct_nontrivial counts distinct trace hashes among non-trivial runs."
    )
}

pub fn assumptions(prop: &str) -> Vec<String> {
    let mut v = vec![
        "sampling, not enumeration: a clean batch is evidence, not proof".to_string(),
        "E1 stubs Server::run; its tick/deliver steps mirror gossip_multiple/handle_message and allow a superset of the real interleavings".to_string(),
        "clock skew is modelled by scaling each node's configured durations (chitchat never exchanges instants)".to_string(),
        "every ChitchatId is used by one incarnation (restarts bump generation_id)".to_string(),
    ];
    match prop {
        "C01" => v.push("the digest and any single key-value fit one datagram (enforced when writes are generated); known finding KF-2 is classified by its signature (a member one side still sends and the other no longer advertises) and does not end the run".into()),
        "C02" => v.push("known finding KF-1 is classified by its taint signature and does not end the run".into()),
        "C07" => v.push("the node's own digest leaves at least 100 bytes of room (part of the statement)".into()),
        "C09" => v.push("the members the node knows still fit a digest in one datagram (part of the statement); the hostile generator inflates the victim's digest up to that limit".into()),
        "C10" | "C11" => v.push("a 1e-6 relative margin absorbs the incrementally summed floating-point mean".into()),
        _ => {}
    }
    v
}

pub fn expected_probes(prop: &str) -> Vec<&'static str> {
    match prop {
        "C01" => vec!["handshakes_with_lag", "probe_mtu_truncation", "probe_reset_applied", "fault_drop", "fault_duplicate", "fault_partition"],
        "C02" => vec!["probe_reset_applied", "probe_gc_removed", "probe_stale_after_reset_delivery", "probe_taint_created", "fault_restart", "late_join"],
        "C03" => vec!["probe_reset_applied", "probe_setmaxversion_applied", "probe_multi_block_delta"],
        "C04" => vec!["probe_reject_from_future", "probe_reject_other", "probe_reset_applied", "probe_noop_write"],
        "C05" => vec!["probe_delta_about_receiver_itself", "fault_duplicate"],
        "C06" => vec!["probe_gc_removed", "probe_replica_gc_raised_watermark"],
        "C07" => vec!["probe_mtu_truncation", "probe_multi_block_delta", "probe_uncompressed_block"],
        "C08" => vec!["probe_multi_block_delta", "probe_uncompressed_block"],
        "C09" => vec!["hostile_decoded", "hostile_rejected"],
        "C12" => vec!["probe_member_removed", "probe_member_recreated", "probe_recreate_refused", "probe_quarantined_at_send", "probe_scheduled_for_deletion"],
        "C13" => vec!["probe_watch_published"],
        "C14" => vec!["probe_reset_applied", "probe_stale_delta_delivery", "probe_reject_from_future"],
        "C16" => vec!["probe_foreign_syn"],
        "C20" => vec!["probe_reset_applied", "probe_multi_reset_message", "probe_reset_of_nonempty_copy", "probe_reset_of_new_member"],
        _ => vec![],
    }
}
