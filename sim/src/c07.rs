//! C07 (b) as a predicate: a delta is a gap-free, tail-truncated slice of the sender's copies.

use std::collections::{BTreeMap, HashSet};

use chitchat::Chitchat;

use crate::codec::{Id, NodeDelta};
use crate::e1::world::{kind_of, Entry, NodeView};

pub struct SliceReport {
    pub truncated: bool,
}

/// `answers`: the (watermark, max version) the peer announced per member.
pub fn check_deltas(
    label: &str,
    chit: &Chitchat,
    view: &NodeView,
    scheduled: &HashSet<Id>,
    answers: &BTreeMap<Id, (u64, u64)>,
    deltas: &[NodeDelta],
) -> Result<SliceReport, (String, String)> {
    let e = |code: &str, d: String| Err((code.to_string(), d));
    let mut truncated = false;
    for (i, nd) in deltas.iter().enumerate() {
        let Some(copy) = view.get(&nd.id) else {
            return e("C07.unknown_member", format!("{label} sends a delta about {} it does not hold", nd.id.short()));
        };
        let ns = chit.node_state(&nd.id.to_real()).unwrap();
        let peer_mv = answers.get(&nd.id).map(|f| f.1).unwrap_or(0);
        if scheduled.contains(&nd.id) {
            return e("C07.scheduled_member", format!("{label} includes {} which is scheduled for deletion", nd.id.short()));
        }
        if nd.gc != copy.gc {
            return e("C07.gc", format!("{label} delta for {} announces watermark {} but the copy's is {}", nd.id.short(), nd.gc, copy.gc));
        }
        if nd.from != 0 && nd.from != peer_mv {
            return e("C07.from", format!("{label} delta for {} starts at {} (peer announced {})", nd.id.short(), nd.from, peer_mv));
        }
        if nd.kvs.is_empty() {
            if nd.has_setmax && nd.max != copy.mv {
                return e("C07.setmax", format!("{label} SetMaxVersion({}) for {} whose copy is at {}", nd.max, nd.id.short(), copy.mv));
            }
            if nd.has_setmax {
                let skipped: Vec<(&String, u64)> = copy.entries.iter().filter(|(_, e)| e.version > nd.from && e.version <= nd.max).map(|(k, e)| (k, e.version)).collect();
                if !skipped.is_empty() {
                    return e(
                        "C07.setmax_skips_entries",
                        format!("{label} delta for {} announces versions ({}, {}] with no key-values, but the copy holds {} entries in that range", nd.id.short(), nd.from, nd.max, skipped.len()),
                    );
                }
            }
        } else {
            if nd.has_setmax {
                return e("C07.setmax_after_kvs", format!("{label} emits SetMaxVersion after key-values for {}", nd.id.short()));
            }
            let mut expect: Vec<(&String, &Entry)> = copy.entries.iter().filter(|(_, e)| e.version > nd.from && e.version <= nd.max).collect();
            expect.sort_by_key(|(_, e)| e.version);
            let got: Vec<(&String, u64)> = nd.kvs.iter().map(|kv| (&kv.key, kv.version)).collect();
            let want: Vec<(&String, u64)> = expect.iter().map(|(k, e)| (*k, e.version)).collect();
            if got != want {
                let show = |v: &Vec<(&String, u64)>| v.iter().take(8).map(|(k, ver)| format!("{k:?}@{ver}")).collect::<Vec<_>>().join(",");
                return e(
                    "C07.slice",
                    format!("{label} delta for {} (from {}, max {}) is not the gap-free slice of the copy: sent [{}] copy has [{}]", nd.id.short(), nd.from, nd.max, show(&got), show(&want)),
                );
            }
            for kv in &nd.kvs {
                let vv = ns.get_versioned(&kv.key).unwrap();
                if vv.value != kv.value || kind_of(&vv.status) != kv.status {
                    return e("C07.entry_altered", format!("{label} delta for {} carries {:?}@{} differing from the copy", nd.id.short(), kv.key, kv.version));
                }
            }
        }
        let complete = if nd.kvs.is_empty() { nd.has_setmax || copy.mv <= nd.from } else { nd.max >= copy.entries.values().map(|e| e.version).max().unwrap_or(0) };
        if !complete {
            truncated = true;
            if i + 1 != deltas.len() {
                return e("C07.truncated_middle", format!("{label} truncated {} although more members follow", nd.id.short()));
            }
        }
    }
    Ok(SliceReport { truncated })
}
