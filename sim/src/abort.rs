//! Abnormal process ends (allocation failure, stack overflow, double panic: SIGABRT) inside the code
//! under test. They cannot be caught in-process, so the search leaves breadcrumbs:
//!  * every worker records which (engine, run index) it is executing; a SIGABRT handler writes those
//!    slots to `<root>/replays/.inflight` before the process dies;
//!  * `sim isolate` re-executes one run in a fresh process with a command tee (every command is
//!    appended to a file before it is applied), so the list that leads to the abort is on disk;
//!  * `sim abortreplay` turns the tee into a replay file, and `sim replay` runs such a file in a
//!    child process and treats "the child was killed by a signal" as the reproduction.
//! /verif/check drives these steps when the search exits with a signal status.

use std::io::Write;
use std::sync::atomic::{AtomicBool, AtomicI32, AtomicU64, Ordering};
use std::sync::Mutex;

use serde_json::Value;

const SLOTS: usize = 64;
static INFLIGHT_RUN: [AtomicU64; SLOTS] = [const { AtomicU64::new(u64::MAX) }; SLOTS];
static INFLIGHT_ENGINE: [AtomicU64; SLOTS] = [const { AtomicU64::new(0) }; SLOTS];
static INFLIGHT_SINCE: [AtomicU64; SLOTS] = [const { AtomicU64::new(0) }; SLOTS];
static FD: AtomicI32 = AtomicI32::new(-1);
static START: std::sync::OnceLock<std::time::Instant> = std::sync::OnceLock::new();

fn now_ms() -> u64 {
    START.get_or_init(std::time::Instant::now).elapsed().as_millis() as u64
}

/// Wall-clock seconds after which a single run counts as hung (runs take milliseconds).
pub fn hang_s() -> u64 {
    std::env::var("VERIF_HANG_S").ok().and_then(|s| s.parse().ok()).unwrap_or(300)
}

pub fn enter(slot: usize, engine_index: u64, run_index: u64) {
    if slot < SLOTS {
        INFLIGHT_ENGINE[slot].store(engine_index, Ordering::SeqCst);
        INFLIGHT_SINCE[slot].store(now_ms(), Ordering::SeqCst);
        INFLIGHT_RUN[slot].store(run_index, Ordering::SeqCst);
    }
}

pub fn leave(slot: usize) {
    if slot < SLOTS {
        INFLIGHT_RUN[slot].store(u64::MAX, Ordering::SeqCst);
    }
}

fn put(buf: &mut [u8], at: &mut usize, mut n: u64) {
    let mut tmp = [0u8; 20];
    let mut k = 0;
    loop {
        tmp[k] = b'0' + (n % 10) as u8;
        n /= 10;
        k += 1;
        if n == 0 {
            break;
        }
    }
    while k > 0 {
        k -= 1;
        buf[*at] = tmp[k];
        *at += 1;
    }
}

fn dump(only_older_than_ms: Option<u64>) {
    // async-signal-safe only: atomics, write(2)
    let fd = FD.load(Ordering::SeqCst);
    if fd >= 0 {
        for slot in 0..SLOTS {
            let run = INFLIGHT_RUN[slot].load(Ordering::SeqCst);
            let old_enough = only_older_than_ms.map(|t| INFLIGHT_SINCE[slot].load(Ordering::SeqCst) <= t).unwrap_or(true);
            if run != u64::MAX && old_enough {
                let mut buf = [0u8; 64];
                let mut at = 0;
                put(&mut buf, &mut at, INFLIGHT_ENGINE[slot].load(Ordering::SeqCst));
                buf[at] = b' ';
                at += 1;
                put(&mut buf, &mut at, run);
                buf[at] = b'\n';
                at += 1;
                unsafe {
                    libc::write(fd, buf.as_ptr() as *const libc::c_void, at);
                }
            }
        }
    }
}

extern "C" fn on_abort(_sig: i32) {
    dump(None);
    unsafe { libc::_exit(134) }
}

/// Exit status of a search process whose watchdog found a run that does not return.
pub const HANG_STATUS: i32 = 142;

/// Opens the breadcrumb file and installs the handler (search processes only).
pub fn install(root: &str) {
    let path = format!("{root}/replays/.inflight");
    let _ = std::fs::create_dir_all(format!("{root}/replays"));
    let _ = std::fs::remove_file(&path);
    if let Ok(c) = std::ffi::CString::new(path) {
        let fd = unsafe { libc::open(c.as_ptr(), libc::O_WRONLY | libc::O_CREAT | libc::O_TRUNC, 0o644) };
        FD.store(fd, Ordering::SeqCst);
        unsafe {
            libc::signal(libc::SIGABRT, on_abort as usize);
        }
        // watchdog: a run that does not return (a loop that lost its await, a wait that is never
        // woken) can not be interrupted from inside; name it and end the process
        let limit_ms = hang_s() * 1000;
        std::thread::spawn(move || loop {
            std::thread::sleep(std::time::Duration::from_secs(1));
            let now = now_ms();
            if now < limit_ms {
                continue;
            }
            let hung = (0..SLOTS).any(|s| INFLIGHT_RUN[s].load(Ordering::SeqCst) != u64::MAX && INFLIGHT_SINCE[s].load(Ordering::SeqCst) <= now - limit_ms);
            if hung {
                dump(Some(now - limit_ms));
                unsafe { libc::_exit(HANG_STATUS) }
            }
        });
    }
}

// ---- command tee (isolate mode)

static TEE_ON: AtomicBool = AtomicBool::new(false);
static TEE: Mutex<Option<std::fs::File>> = Mutex::new(None);

pub fn tee_start(path: &str) {
    *TEE.lock().unwrap() = std::fs::File::create(path).ok();
    TEE_ON.store(true, Ordering::SeqCst);
}

fn line(v: &Value) {
    if let Some(f) = TEE.lock().unwrap().as_mut() {
        let _ = writeln!(f, "{v}");
        let _ = f.flush();
    }
}

/// First line of a tee: engine, profile and configuration of the run.
pub fn tee_cfg(engine: &str, profile: &str, cfg: &Value) {
    if TEE_ON.load(Ordering::Relaxed) {
        line(&serde_json::json!({"engine": engine, "profile": profile, "config": cfg}));
    }
}

/// One command, written before it is applied.
pub fn tee_cmd<T: serde::Serialize>(cmd: &T) {
    if TEE_ON.load(Ordering::Relaxed) {
        line(&serde_json::to_value(cmd).unwrap_or(Value::Null));
    }
}

pub fn tee_cmds<T: serde::Serialize>(cmds: &[T]) {
    if TEE_ON.load(Ordering::Relaxed) {
        for c in cmds {
            tee_cmd(c);
        }
    }
}
