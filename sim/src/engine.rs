//! Engine abstraction: a run is (config, command list); generation executes while it generates,
//! replay interprets a list with no PRNG.

use serde_json::Value;

use crate::common::Outcome;

pub struct RunRecord {
    pub engine: &'static str,
    pub profile: String,
    pub cfg: Value,
    pub cmds: Vec<Value>,
    pub outcome: Outcome,
}

pub trait Engine: Sync + Send {
    fn name(&self) -> &'static str;
    /// Generates and executes run `seed` for property `prop`.
    fn generate(&self, seed: u64, prop: &str) -> RunRecord;
    /// Re-executes a command list. `log` asks for a human-readable trace in the outcome.
    fn replay(&self, cfg: &Value, cmds: &[Value], prop: &str, log: bool) -> (Outcome, Vec<String>);
    /// Components that ran real code / stubs, for the evidence file.
    fn real_components(&self) -> Vec<&'static str>;
    fn stub_components(&self) -> Vec<&'static str>;
}

/// Runs `f` on a fresh thread whose hash keys and OS randomness derive from `thread_seed`.
pub fn on_fresh_thread<T: Send + 'static>(thread_seed: u64, f: impl FnOnce() -> T + Send + 'static) -> T {
    std::thread::Builder::new()
        .stack_size(16 << 20)
        .spawn(move || {
            crate::shim::seed_thread(thread_seed);
            f()
        })
        .unwrap()
        .join()
        .unwrap_or_else(|_| {
            // a panic outside guarded code is a harness error: never a verdict, never silence
            eprintln!("harness error: run thread (seed {thread_seed}) panicked outside guarded code");
            std::process::exit(2)
        })
}
