//! Bug hunting for C05 / C15 / C18 / C20 (agent D5).
//!
//! `explore_*` tests are randomized explorers over real `Chitchat` instances (paused clock,
//! every message through the wire format) with an independent oracle for each property.

use std::collections::{BTreeMap, BTreeSet, HashSet};
use std::sync::atomic::{AtomicUsize, Ordering};
use std::sync::{Arc, Mutex};
use std::time::Duration;

use rand::prelude::*;
use rand::rngs::StdRng;
use rand::{RngExt, SeedableRng};
use tokio::sync::watch;
use tokio::time::Instant;

use crate::serialize::{Deserializable, Serializable};
use crate::types::DeletionStatus;
use crate::{Chitchat, ChitchatConfig, ChitchatId, ChitchatMessage, NodeState, VersionedValue};

const GRACE: Duration = Duration::from_secs(10);
const DEAD_GRACE: Duration = Duration::from_secs(40);

type Events = Arc<Mutex<Vec<(ChitchatId, String, String)>>>;

/// (value, version, status code)
type Kv = (String, u64, u8);

#[derive(Clone, Debug, PartialEq, Eq)]
struct CopySnap {
    heartbeat: u64,
    gc: u64,
    mv: u64,
    kvs: BTreeMap<String, Kv>,
}

fn status_code(status: &DeletionStatus) -> u8 {
    match status {
        DeletionStatus::Set => 0,
        DeletionStatus::Deleted(_) => 1,
        DeletionStatus::DeleteAfterTtl(_) => 2,
    }
}

fn snap_copy(node_state: &NodeState) -> CopySnap {
    CopySnap {
        heartbeat: node_state.heartbeat().0,
        gc: node_state.last_gc_version(),
        mv: node_state.max_version(),
        kvs: node_state
            .key_values_including_deleted()
            .map(|(k, vv)| {
                (
                    k.to_string(),
                    (vv.value.clone(), vv.version, status_code(&vv.status)),
                )
            })
            .collect(),
    }
}

fn snap(node: &Chitchat) -> BTreeMap<ChitchatId, CopySnap> {
    node.node_states()
        .iter()
        .map(|(id, ns)| (id.clone(), snap_copy(ns)))
        .collect()
}

struct SimNode {
    chitchat: Chitchat,
    callbacks: Arc<AtomicUsize>,
    events: Events,
    _seed_tx: watch::Sender<HashSet<std::net::SocketAddr>>,
}

fn make_node(slot: usize, generation: u64, grace: Duration) -> SimNode {
    let port = 20_000 + slot as u16;
    let chitchat_id = ChitchatId::new(
        format!("n{slot}"),
        generation,
        ([127, 0, 0, 1], port).into(),
    );
    let mut config = ChitchatConfig::for_test(port);
    config.chitchat_id = chitchat_id;
    config.marked_for_deletion_grace_period = grace;
    config.failure_detector_config.dead_node_grace_period = DEAD_GRACE;
    let callbacks = Arc::new(AtomicUsize::new(0));
    let callbacks_clone = callbacks.clone();
    config.catchup_callback = Some(Box::new(move || {
        callbacks_clone.fetch_add(1, Ordering::SeqCst);
    }));
    let (seed_tx, seed_rx) = watch::channel(HashSet::new());
    let chitchat = Chitchat::with_chitchat_id_and_seeds(config, seed_rx, Vec::new());
    let events: Events = Default::default();
    let events_clone = events.clone();
    chitchat
        .subscribe_event("", move |evt| {
            events_clone.lock().unwrap().push((
                evt.node.clone(),
                evt.key.to_string(),
                evt.value.to_string(),
            ));
        })
        .forever();
    SimNode {
        chitchat,
        callbacks,
        events,
        _seed_tx: seed_tx,
    }
}

fn wire(msg: &ChitchatMessage) -> Vec<u8> {
    let bytes = msg.serialize_to_vec();
    assert!(bytes.len() <= crate::MAX_UDP_DATAGRAM_PAYLOAD_SIZE);
    bytes
}

fn unwire(bytes: &[u8]) -> ChitchatMessage {
    let mut buf = bytes;
    ChitchatMessage::deserialize(&mut buf).expect("honest datagram must decode")
}

struct Datagram {
    to: usize,
    from: usize,
    bytes: Vec<u8>,
}

struct Sim {
    nodes: Vec<SimNode>,
    generations: Vec<u64>,
    inflight: Vec<Datagram>,
    /// States fetched for the external catch-up (member, kvs, max version, watermark).
    fetched: Vec<(ChitchatId, Vec<(String, VersionedValue)>, u64, u64)>,
    trace: Vec<String>,
    arbitrary_catchup: bool,
}

static STAT_RESETS: AtomicUsize = AtomicUsize::new(0);
static STAT_MIDRESET: AtomicUsize = AtomicUsize::new(0);
static STAT_CATCHUP_APPLIED: AtomicUsize = AtomicUsize::new(0);
static STAT_CATCHUP_GCED: AtomicUsize = AtomicUsize::new(0);
static STAT_EVENTS: AtomicUsize = AtomicUsize::new(0);
static STAT_BIG: AtomicUsize = AtomicUsize::new(0);

const KEYS: [&str; 5] = ["", "a", "ab", "é", "k😀"];

impl Sim {
    /// Delivers a datagram and checks C05, C15 (gossip part) and C20 on it.
    fn deliver(&mut self, datagram: &Datagram) {
        let to = datagram.to;
        let msg = unwire(&datagram.bytes);
        let is_delta_msg = matches!(
            msg,
            ChitchatMessage::SynAck { .. } | ChitchatMessage::Ack { .. }
        );
        let node = &mut self.nodes[to];
        let self_id = node.chitchat.self_chitchat_id().clone();
        let before = snap(&node.chitchat);
        let callbacks_before = node.callbacks.load(Ordering::SeqCst);
        node.events.lock().unwrap().clear();
        let reply = node.chitchat.process_message(msg);
        let after = snap(&node.chitchat);
        let callbacks_after = node.callbacks.load(Ordering::SeqCst);
        let trace = || self.trace.join("\n");

        // C05: own namespace untouched, own heartbeat only moved by own activity (+1).
        let own_before = &before[&self_id];
        let own_after = &after[&self_id];
        {
            // (in `arbitrary_catchup` mode the supplied states are kept at or below a running
            // owner's max version: a state ahead of the owner is not one an honest peer can
            // serve, and it does overwrite the owner through gossip - see NOTES.md)
            assert_eq!(
                (&own_before.kvs, own_before.mv, own_before.gc),
                (&own_after.kvs, own_after.mv, own_after.gc),
                "C05 violated: a message changed the node's own namespace\n{}",
                trace()
            );
        }
        assert_eq!(
            own_after.heartbeat,
            own_before.heartbeat + 1,
            "C05: own heartbeat\n{}",
            trace()
        );

        // C20: reset <=> the watermark of a copy went up while processing a message.
        let mut reset_members: BTreeSet<ChitchatId> = BTreeSet::new();
        for (id, copy_after) in &after {
            let gc_before = before.get(id).map(|c| c.gc).unwrap_or(0);
            if copy_after.gc > gc_before {
                reset_members.insert(id.clone());
            }
            assert!(copy_after.gc >= gc_before, "watermark lowered\n{}", trace());
        }
        let expected_callbacks = if reset_members.is_empty() { 0 } else { 1 };
        STAT_RESETS.fetch_add(reset_members.len(), Ordering::Relaxed);
        STAT_MIDRESET.fetch_add(
            after.values().filter(|c| c.gc > c.mv).count(),
            Ordering::Relaxed,
        );
        if datagram.bytes.len() > 40_000 {
            STAT_BIG.fetch_add(1, Ordering::Relaxed);
        }
        assert_eq!(
            callbacks_after - callbacks_before,
            expected_callbacks,
            "C20 violated: {} copies reset, callback invoked {} times (delta msg: {is_delta_msg})\n{}",
            reset_members.len(),
            callbacks_after - callbacks_before,
            trace()
        );

        // C15 (gossip): one event per newly learned non-deleted value, nothing else.
        let mut expected_events: Vec<(ChitchatId, String, String)> = Vec::new();
        for (id, copy_after) in &after {
            let was_reset = reset_members.contains(id);
            for (key, (value, version, status)) in &copy_after.kvs {
                if *status == 1 {
                    continue;
                }
                let version_before = if was_reset {
                    None
                } else {
                    before
                        .get(id)
                        .and_then(|c| c.kvs.get(key))
                        .map(|(_, v, _)| *v)
                };
                if version_before.map(|v| *version > v).unwrap_or(true) {
                    expected_events.push((id.clone(), key.clone(), value.clone()));
                }
            }
        }
        let mut got_events = node.events.lock().unwrap().clone();
        STAT_EVENTS.fetch_add(got_events.len(), Ordering::Relaxed);
        got_events.sort();
        expected_events.sort();
        assert_eq!(
            got_events,
            expected_events,
            "C15 violated on gossip\n{}",
            trace()
        );

        // C05 consequence: nobody is ahead of a running owner.
        for owner in 0..self.nodes.len() {
            let owner_id = self.nodes[owner].chitchat.self_chitchat_id().clone();
            let owner_mv = self.nodes[owner].chitchat.self_node_state().max_version();
            let owner_hb = self.nodes[owner].chitchat.self_node_state().heartbeat().0;
            if let Some(copy) = after.get(&owner_id) {
                assert!(
                    copy.mv <= owner_mv && copy.heartbeat <= owner_hb,
                    "C05 violated: node {to} is ahead of owner {owner_id:?}\n{}",
                    self.trace.join("\n")
                );
                for (key, (_, version, _)) in &copy.kvs {
                    assert!(*version <= owner_mv, "key {key:?} ahead of its owner");
                }
            }
        }

        if let Some(reply) = reply {
            self.inflight.push(Datagram {
                to: datagram.from,
                from: to,
                bytes: wire(&reply),
            });
        }
    }

    fn catchup(
        &mut self,
        at: usize,
        member: &ChitchatId,
        kvs: Vec<(String, VersionedValue)>,
        max_version: u64,
        gc: u64,
    ) {
        let node = &mut self.nodes[at];
        node.chitchat.update_nodes_liveness();
        let before = snap(&node.chitchat);
        let live_before: BTreeSet<ChitchatId> = node.chitchat.live_nodes().cloned().collect();
        let was_gced = node
            .chitchat
            .cluster_state()
            .last_heartbeat_if_deleted(member)
            .is_some();
        let callbacks_before = node.callbacks.load(Ordering::SeqCst);
        node.chitchat
            .reset_node_state_if_update(member, kvs.clone().into_iter(), max_version, gc);
        let after = snap(&node.chitchat);
        let trace = || self.trace.join("\n");
        assert_eq!(
            callbacks_before,
            node.callbacks.load(Ordering::SeqCst),
            "catch-up invoked the callback"
        );
        node.chitchat.update_nodes_liveness();
        let live_after: BTreeSet<ChitchatId> = node.chitchat.live_nodes().cloned().collect();
        assert!(
            live_after.is_subset(&live_before),
            "C18 violated: catch-up made a member live\n{}",
            trace()
        );
        for (id, copy_after) in &after {
            if id != member {
                assert_eq!(before.get(id), Some(copy_after), "C18: other member touched");
            }
        }
        let copy_before = before.get(member);
        let Some(copy_after) = after.get(member) else {
            assert!(copy_before.is_none());
            if was_gced {
                STAT_CATCHUP_GCED.fetch_add(1, Ordering::Relaxed);
            }
            return;
        };
        if copy_before.is_none() {
            assert!(
                !was_gced,
                "C18 violated: catch-up recreated a garbage collected member\n{}",
                trace()
            );
        }
        let empty = CopySnap {
            heartbeat: 0,
            gc: 0,
            mv: 0,
            kvs: BTreeMap::new(),
        };
        let copy_before = copy_before.unwrap_or(&empty);
        assert!(
            (copy_after.gc, copy_after.mv) >= (copy_before.gc, copy_before.mv)
                && copy_after.gc >= copy_before.gc
                && copy_after.mv >= copy_before.mv,
            "C18 violated: (watermark, max version) lowered {copy_before:?} -> {copy_after:?}\n{}",
            trace()
        );
        assert_eq!(copy_after.heartbeat, copy_before.heartbeat);
        if copy_after == copy_before {
            return;
        }
        STAT_CATCHUP_APPLIED.fetch_add(1, Ordering::Relaxed);
        // Replaced: key set is the supplied one, newer of both.
        let mut expected: BTreeMap<String, Kv> = BTreeMap::new();
        for (key, vv) in &kvs {
            let candidate = (vv.value.clone(), vv.version, status_code(&vv.status));
            let entry = expected.entry(key.clone()).or_insert(candidate.clone());
            if entry.1 < candidate.1 {
                *entry = candidate;
            }
        }
        for (key, entry) in expected.iter_mut() {
            if let Some(previous) = copy_before.kvs.get(key) {
                if previous.1 >= entry.1 {
                    *entry = previous.clone();
                }
            }
        }
        assert_eq!(
            copy_after.kvs,
            expected,
            "C18 violated: key set after catch-up\n{}",
            trace()
        );
        assert!(copy_after.mv >= max_version);
        assert_eq!(copy_after.gc, gc);
    }
}

static LAST_TRACE: Mutex<Vec<String>> = Mutex::new(Vec::new());

fn install_trace_hook() {
    static ONCE: std::sync::Once = std::sync::Once::new();
    ONCE.call_once(|| {
        let previous = std::panic::take_hook();
        std::panic::set_hook(Box::new(move |info| {
            if let Ok(trace) = LAST_TRACE.try_lock() {
                let start = trace.len().saturating_sub(40);
                eprintln!("--- last steps ---\n{}", trace[start..].join("\n"));
            }
            previous(info);
        }));
    });
}

async fn explore(seed: u64, num_steps: usize, arbitrary_catchup: bool, big_values: bool) {
    install_trace_hook();
    let mut rng = StdRng::seed_from_u64(seed);
    let num_nodes = 3usize;
    let mut sim = Sim {
        nodes: (0..num_nodes)
            .map(|slot| make_node(slot, 0, GRACE + Duration::from_secs(3 * slot as u64)))
            .collect(),
        generations: vec![0; num_nodes],
        inflight: Vec::new(),
        fetched: Vec::new(),
        trace: Vec::new(),
        arbitrary_catchup,
    };
    for step in 0..num_steps {
        {
            let mut last_trace = LAST_TRACE.lock().unwrap_or_else(|e| e.into_inner());
            *last_trace = sim.trace.clone();
            last_trace.push(format!("(seed {seed}, step {step})"));
        }
        let choice = rng.random_range(0..100u32);
        let i = rng.random_range(0..num_nodes);
        match choice {
            0..=19 => {
                // local write
                let key = KEYS[rng.random_range(0..KEYS.len())];
                let op = rng.random_range(0..4u32);
                let value = if big_values && rng.random_bool(0.5) {
                    let len = rng.random_range(15_000..32_000usize);
                    (0..len)
                        .map(|_| rng.sample(rand::distr::Alphanumeric) as char)
                        .collect::<String>()
                } else {
                    format!("v{}", rng.random_range(0..3u32))
                };
                sim.trace
                    .push(format!("{step}: node {i} op {op} key {key:?} vlen {}", value.len()));
                let node = &mut sim.nodes[i];
                let self_id = node.chitchat.self_chitchat_id().clone();
                let before = snap_copy(node.chitchat.self_node_state());
                node.events.lock().unwrap().clear();
                match op {
                    0 => node.chitchat.self_node_state().set(key, &value),
                    1 => node.chitchat.self_node_state().set_with_ttl(key, &value),
                    2 => node.chitchat.self_node_state().delete(key),
                    _ => node.chitchat.self_node_state().delete_after_ttl(key),
                }
                let after = snap_copy(node.chitchat.self_node_state());
                let events = node.events.lock().unwrap().clone();
                // C15 (local): a set to a new value fires exactly once.
                let previous = before.kvs.get(key);
                let is_new_value = match op {
                    0 | 1 => previous.map(|(v, _, _)| v != &value).unwrap_or(true),
                    _ => false,
                };
                if is_new_value {
                    assert_eq!(
                        events,
                        vec![(self_id.clone(), key.to_string(), value.clone())],
                        "C15 violated on a local write\n{}",
                        sim.trace.join("\n")
                    );
                }
                if op >= 2 {
                    assert!(events.is_empty(), "C15: deletion fired a listener");
                }
                if events.is_empty() && op < 2 {
                    assert_eq!(before, after);
                }
            }
            20..=39 => {
                let j = (i + rng.random_range(1..num_nodes)) % num_nodes;
                sim.trace.push(format!("{step}: syn {i} -> {j}"));
                sim.nodes[i].chitchat.update_self_heartbeat();
                let syn = sim.nodes[i].chitchat.create_syn_message();
                sim.inflight.push(Datagram {
                    to: j,
                    from: i,
                    bytes: wire(&syn),
                });
            }
            40..=69 => {
                if sim.inflight.is_empty() {
                    continue;
                }
                let k = rng.random_range(0..sim.inflight.len());
                let duplicate = rng.random_bool(0.2);
                let datagram = if duplicate {
                    let d = &sim.inflight[k];
                    Datagram {
                        to: d.to,
                        from: d.from,
                        bytes: d.bytes.clone(),
                    }
                } else {
                    sim.inflight.swap_remove(k)
                };
                sim.trace.push(format!(
                    "{step}: deliver {} -> {} type {} dup {duplicate} ({} bytes)",
                    datagram.from,
                    datagram.to,
                    datagram.bytes[3],
                    datagram.bytes.len()
                ));
                sim.deliver(&datagram);
            }
            70..=74 => {
                if !sim.inflight.is_empty() {
                    let k = rng.random_range(0..sim.inflight.len());
                    sim.inflight.swap_remove(k);
                    sim.trace.push(format!("{step}: drop"));
                }
            }
            75..=86 => {
                let secs = [0u64, 1, 1, 2, 4, 6, 11, 25][rng.random_range(0..8usize)];
                tokio::time::advance(Duration::from_secs(secs)).await;
                sim.trace.push(format!("{step}: +{secs}s, housekeeping at {i}"));
                let node = &mut sim.nodes[i];
                let before = snap(&node.chitchat);
                node.chitchat.update_self_heartbeat();
                node.chitchat.gc_keys_marked_for_deletion();
                node.chitchat.update_nodes_liveness();
                let after = snap(&node.chitchat);
                for (id, copy_after) in &after {
                    let copy_before = &before[id];
                    assert!(
                        (copy_after.gc, copy_after.mv) >= (copy_before.gc, copy_before.mv),
                        "gc lowered the monotonic pair"
                    );
                }
            }
            87..=94 => {
                // catch-up
                let j = rng.random_range(0..num_nodes);
                if rng.random_bool(0.5) || sim.fetched.is_empty() {
                    // fetch a peer's copy now, use it later (or right away).
                    let source = &sim.nodes[j].chitchat;
                    let ids: Vec<ChitchatId> = source.node_states().keys().cloned().collect();
                    let member = ids[rng.random_range(0..ids.len())].clone();
                    let ns = source.node_state(&member).unwrap();
                    let kvs: Vec<(String, VersionedValue)> = ns
                        .key_values_including_deleted()
                        .map(|(k, vv)| (k.to_string(), vv.clone()))
                        .collect();
                    sim.fetched
                        .push((member, kvs, ns.max_version(), ns.last_gc_version()));
                    sim.trace.push(format!("{step}: fetch from {j}"));
                }
                let f = rng.random_range(0..sim.fetched.len());
                let (member, mut kvs, mut max_version, mut gc) = sim.fetched[f].clone();
                if &member == sim.nodes[i].chitchat.self_chitchat_id() {
                    continue;
                }
                if sim.arbitrary_catchup {
                    // Distort the supplied state (distinct versions: O-7 is known).
                    if rng.random_bool(0.5) {
                        max_version = rng.random_range(0..12u64);
                    }
                    if rng.random_bool(0.5) {
                        gc = rng.random_range(0..12u64);
                    }
                    if rng.random_bool(0.5) {
                        let mut versions: Vec<u64> = (1..14).collect();
                        versions.shuffle(&mut rng);
                        let mut new_kvs = Vec::new();
                        for (idx, key) in KEYS.iter().enumerate() {
                            if rng.random_bool(0.5) {
                                continue;
                            }
                            let status = match rng.random_range(0..3u32) {
                                0 => DeletionStatus::Set,
                                1 => DeletionStatus::Deleted(Instant::now()),
                                _ => DeletionStatus::DeleteAfterTtl(Instant::now()),
                            };
                            new_kvs.push((
                                key.to_string(),
                                VersionedValue {
                                    value: format!("c{idx}"),
                                    version: versions[idx],
                                    status,
                                },
                            ));
                        }
                        kvs = new_kvs;
                    }
                    // Not ahead of a running owner (that would not be a state fetched from an
                    // honest peer, and the owner itself would then be overwritten).
                    if let Some(owner) = sim
                        .nodes
                        .iter_mut()
                        .find(|n| n.chitchat.self_chitchat_id() == &member)
                    {
                        let bound = owner.chitchat.self_node_state().max_version();
                        max_version = max_version.min(bound);
                        gc = gc.min(bound);
                        kvs.retain(|(_, vv)| vv.version <= bound);
                    }
                    // O-7 (two keys at the same version) is known: skip such outcomes.
                    let mut merged: BTreeMap<String, u64> = BTreeMap::new();
                    for (key, vv) in &kvs {
                        merged.insert(key.clone(), vv.version);
                    }
                    if let Some(copy) = sim.nodes[i].chitchat.node_state(&member) {
                        for (key, version) in merged.iter_mut() {
                            if let Some(existing) = copy.get_versioned(key) {
                                *version = (*version).max(existing.version);
                            }
                        }
                    }
                    let distinct: BTreeSet<u64> = merged.values().copied().collect();
                    if distinct.len() != merged.len() {
                        continue;
                    }
                }
                sim.trace.push(format!(
                    "{step}: catch-up at {i} for {member:?}: mv {max_version} gc {gc} kvs {:?}",
                    kvs.iter()
                        .map(|(k, vv)| (k.clone(), vv.version, status_code(&vv.status)))
                        .collect::<Vec<_>>()
                ));
                sim.catchup(i, &member, kvs, max_version, gc);
            }
            _ => {
                // restart under a new generation
                if rng.random_bool(0.3) {
                    sim.generations[i] += 1;
                    sim.trace
                        .push(format!("{step}: restart {i} gen {}", sim.generations[i]));
                    sim.nodes[i] = make_node(
                        i,
                        sim.generations[i],
                        GRACE + Duration::from_secs(3 * i as u64),
                    );
                }
            }
        }
    }
}

fn print_stats() {
    eprintln!(
        "resets {} midreset-copies-seen {} catchup-applied {} catchup-on-gced {} events {} big-datagrams {}",
        STAT_RESETS.load(Ordering::Relaxed),
        STAT_MIDRESET.load(Ordering::Relaxed),
        STAT_CATCHUP_APPLIED.load(Ordering::Relaxed),
        STAT_CATCHUP_GCED.load(Ordering::Relaxed),
        STAT_EVENTS.load(Ordering::Relaxed),
        STAT_BIG.load(Ordering::Relaxed),
    );
}

#[tokio::test(start_paused = true)]
async fn explore_honest() {
    for seed in 0..400u64 {
        explore(seed, 400, false, false).await;
    }
    print_stats();
}

#[tokio::test(start_paused = true)]
async fn explore_honest_big_values() {
    for seed in 0..60u64 {
        explore(1_000 + seed, 300, false, true).await;
    }
    print_stats();
}

#[tokio::test(start_paused = true)]
async fn explore_arbitrary_catchup() {
    for seed in 0..400u64 {
        explore(5_000 + seed, 400, true, false).await;
    }
    print_stats();
}

/// C15, listener table alone: exhaustive keys up to length 3 over {a, b, é, 😀}, random sets of
/// up to 8 prefixes (with duplicates), random drop / forever.
#[test]
fn explore_listener_prefixes() {
    use crate::KeyChangeEvent;
    use crate::listener::Listeners;
    let alphabet = ["a", "b", "é", "😀"];
    let mut strings: Vec<String> = vec![String::new()];
    let mut frontier = vec![String::new()];
    for _ in 0..3 {
        let mut next = Vec::new();
        for s in &frontier {
            for c in alphabet {
                next.push(format!("{s}{c}"));
            }
        }
        strings.extend(next.iter().cloned());
        frontier = next;
    }
    assert_eq!(strings.len(), 85);
    let node = ChitchatId::for_local_test(1);
    let mut rng = StdRng::seed_from_u64(7);
    for _round in 0..300 {
        let mut listeners = Listeners::default();
        let num_subs = rng.random_range(0..=8usize);
        let calls: Arc<Mutex<Vec<(usize, String, String)>>> = Default::default();
        let mut active: Vec<(usize, String)> = Vec::new();
        let mut handles = Vec::new();
        for sub in 0..num_subs {
            let prefix = strings[rng.random_range(0..strings.len())].clone();
            let calls_clone = calls.clone();
            let handle = listeners.subscribe_event(prefix.clone(), move |evt: KeyChangeEvent| {
                calls_clone.lock().unwrap().push((
                    sub,
                    evt.key.to_string(),
                    evt.value.to_string(),
                ));
            });
            match rng.random_range(0..3u32) {
                0 => drop(handle),
                1 => {
                    handle.forever();
                    active.push((sub, prefix));
                }
                _ => {
                    handles.push(handle);
                    active.push((sub, prefix));
                }
            }
        }
        for key in &strings {
            calls.lock().unwrap().clear();
            listeners.trigger_event(KeyChangeEvent {
                key,
                value: "v",
                node: &node,
            });
            let mut expected: Vec<(usize, String, String)> = active
                .iter()
                .filter(|(_, prefix)| key.starts_with(prefix.as_str()))
                .map(|(sub, prefix)| (*sub, key[prefix.len()..].to_string(), "v".to_string()))
                .collect();
            expected.sort();
            let mut got = calls.lock().unwrap().clone();
            got.sort();
            assert_eq!(got, expected, "C15 violated for key {key:?}, subscriptions {active:?}");
        }
    }
}

/// C18 extremes: u64::MAX versions / watermark, version 0 keys, followed by gossip.
#[tokio::test(start_paused = true)]
async fn explore_catchup_extremes() {
    for (mv, gc, kv_version) in [
        (u64::MAX, 0u64, u64::MAX),
        (u64::MAX, u64::MAX, 1),
        (u64::MAX, u64::MAX, u64::MAX),
        (5, u64::MAX, 0),
        (1, 0, 0),
        (1, 7, u64::MAX),
    ] {
        let mut a = make_node(0, 0, GRACE);
        let mut b = make_node(1, 0, GRACE);
        let ghost = ChitchatId::new("ghost".to_string(), 0, ([127, 0, 0, 1], 30_000).into());
        let kvs = vec![
            (
                "k".to_string(),
                VersionedValue {
                    value: "v".to_string(),
                    version: kv_version,
                    status: DeletionStatus::Set,
                },
            ),
            (
                "t".to_string(),
                VersionedValue {
                    value: "".to_string(),
                    version: kv_version.saturating_sub(1).max(2),
                    status: DeletionStatus::Deleted(Instant::now()),
                },
            ),
        ];
        a.chitchat
            .reset_node_state_if_update(&ghost, kvs.into_iter(), mv, gc);
        for _ in 0..3 {
            for (x, y) in [(0, 1), (1, 0)] {
                let (from, to) = if x == 0 { (&mut a, &mut b) } else { (&mut b, &mut a) };
                let _ = y;
                let syn = unwire(&wire(&from.chitchat.create_syn_message()));
                let synack = unwire(&wire(&to.chitchat.process_message(syn).unwrap()));
                let ack = unwire(&wire(&from.chitchat.process_message(synack).unwrap()));
                assert!(to.chitchat.process_message(ack).is_none());
            }
            tokio::time::advance(Duration::from_secs(6)).await;
            for n in [&mut a, &mut b] {
                n.chitchat.gc_keys_marked_for_deletion();
                n.chitchat.update_nodes_liveness();
            }
        }
    }
}

/// FINDING D5-1 (C18, low severity): the memory of garbage collected members is an LRU of 500
/// entries (`GARBAGE_COLLECTED_NODE_HISTORY_SIZE`). Once 500 further members have been garbage
/// collected, the catch-up entry point recreates a member that was garbage collected.
#[tokio::test(start_paused = true)]
async fn c18_catchup_recreates_gced_member_after_500_other_gcs() {
    use crate::digest::Digest;
    use crate::types::Heartbeat;

    let mut node = make_node(0, 0, GRACE).chitchat;
    let cluster_id = node.cluster_id().to_string();
    let member = |i: u16| ChitchatId::new(format!("m{i}"), 0, ([10, 0, (i >> 8) as u8, i as u8], 7000).into());
    let fetched_state = || {
        [(
            "k".to_string(),
            VersionedValue {
                value: "v".to_string(),
                version: 1,
                status: DeletionStatus::Set,
            },
        )]
        .into_iter()
    };

    // A peer's SYN makes X known; it is never heard of again.
    let x = member(0);
    let mut digest = Digest::default();
    digest.add_node(x.clone(), Heartbeat(1), 0, 1);
    let syn = ChitchatMessage::Syn {
        cluster_id: cluster_id.clone(),
        digest,
    };
    node.process_message(unwire(&wire(&syn)));
    node.update_nodes_liveness(); // X: dead since t0

    // One second later, 500 other members become known the same way.
    tokio::time::advance(Duration::from_secs(1)).await;
    let mut digest = Digest::default();
    for i in 1..=500u16 {
        digest.add_node(member(i), Heartbeat(1), 0, 1);
    }
    let syn = ChitchatMessage::Syn { cluster_id, digest };
    node.process_message(unwire(&wire(&syn)));
    node.update_nodes_liveness(); // the others: dead since t0 + 1s

    // X is garbage collected: the catch-up entry point refuses to recreate it (control).
    tokio::time::advance(DEAD_GRACE - Duration::from_secs(1)).await;
    node.update_nodes_liveness();
    assert!(node.node_state(&x).is_none());
    assert_eq!(node.node_states().len(), 501);
    node.reset_node_state_if_update(&x, fetched_state(), 1, 0);
    assert!(node.node_state(&x).is_none(), "control: X must not be recreated");

    // The 500 others are garbage collected in turn.
    tokio::time::advance(Duration::from_secs(1)).await;
    node.update_nodes_liveness();
    assert_eq!(node.node_states().len(), 1);

    node.reset_node_state_if_update(&x, fetched_state(), 1, 0);
    assert!(
        node.node_state(&x).is_none(),
        "C18 violated: the catch-up entry point recreated member {x:?}, which this node had \
         garbage collected (its record fell out of the 500-entry LRU)"
    );
}

/// OBSERVATION (not counted as a finding, see NOTES.md): a key-change listener that panics in
/// the middle of a catch-up leaves the copy half replaced, with a max version that hides the
/// missing keys from gossip. This test documents the behaviour and passes.
#[tokio::test(start_paused = true)]
async fn observation_panicking_listener_leaves_catchup_half_applied() {
    let mut node = make_node(0, 0, GRACE).chitchat;
    let x = ChitchatId::new("x".to_string(), 0, ([127, 0, 0, 1], 30_001).into());
    let vv = |version: u64| VersionedValue {
        value: format!("v{version}"),
        version,
        status: DeletionStatus::Set,
    };
    node.reset_node_state_if_update(
        &x,
        [("a".to_string(), vv(1)), ("b".to_string(), vv(2))].into_iter(),
        2,
        0,
    );
    node.subscribe_event("z", |_| panic!("user listener bug")).forever();
    let result = std::panic::catch_unwind(std::panic::AssertUnwindSafe(|| {
        node.reset_node_state_if_update(
            &x,
            [
                ("a".to_string(), vv(1)),
                ("z".to_string(), vv(10)),
                ("d".to_string(), vv(5)),
            ]
            .into_iter(),
            10,
            4,
        );
    }));
    assert!(result.is_err());
    let copy = snap_copy(node.node_state(&x).unwrap());
    eprintln!("{copy:?}");
    // neither unchanged nor replaced: b (gone at the source) is still there, d is missing, and
    // max version 10 tells every peer that nothing below 10 is needed.
    assert_eq!(copy.mv, 10);
    assert_eq!(copy.gc, 0);
    assert!(copy.kvs.contains_key("b") && copy.kvs.contains_key("z") && !copy.kvs.contains_key("d"));
}
