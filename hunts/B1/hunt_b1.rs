//! Exploration harness of bug hunt B1 (properties C01, C02, C14).
//!
//! No violation outside the two known defects (K1, K2) was found: all the tests of this file
//! PASS on the unmodified library. They are kept as a record of what was explored (see
//! NOTES.md at the root of the worktree). Instances of K1 are recognised by `is_k1_trigger`
//! and dropped (chaos phase) or excluded from the C02 check (loss-free phase).
#![allow(dead_code)]

use std::collections::{BTreeMap, HashSet};
use std::time::Duration;

use tokio::sync::watch;
use tokio::time::Instant;

use crate::delta::{Delta, DeltaSerializer};
use crate::serialize::{Deserializable, Serializable};
use crate::types::DeletionStatus;
use crate::{Chitchat, ChitchatConfig, ChitchatId, ChitchatMessage, VersionedValue};

struct Rng(u64);
impl Rng {
    fn next(&mut self) -> u64 {
        self.0 ^= self.0 << 13;
        self.0 ^= self.0 >> 7;
        self.0 ^= self.0 << 17;
        self.0
    }
    fn below(&mut self, n: usize) -> usize {
        (self.next() % (n as u64)) as usize
    }
    fn chance(&mut self, pct: usize) -> bool {
        self.below(100) < pct
    }
}

#[derive(Clone, Copy, PartialEq, Eq, Debug)]
enum Kind {
    Set,
    Del,
    Ttl,
}

fn kind_of(status: &DeletionStatus) -> Kind {
    match status {
        DeletionStatus::Set => Kind::Set,
        DeletionStatus::Deleted(_) => Kind::Del,
        DeletionStatus::DeleteAfterTtl(_) => Kind::Ttl,
    }
}

#[derive(Clone, Debug)]
struct Write {
    version: u64,
    value: String,
    kind: Kind,
}

#[derive(Default)]
struct OwnerModel {
    history: BTreeMap<String, Vec<Write>>,
}

struct Params {
    big_values: bool,
    catchup: bool,
    num_nodes: usize,
    grace_secs: u64,
    steps: usize,
    liveness: bool,
    dead_grace_secs: u64,
}

struct Sim {
    nodes: Vec<Chitchat>,
    ids: Vec<ChitchatId>,
    models: Vec<OwnerModel>,
    inflight: Vec<(usize, usize, Vec<u8>)>, // (to, from, bytes)
    rng: Rng,
    log: Vec<String>,
    counter: u64,
    big: bool,
    k1_filter: bool,
    k1_dropped: usize,
    tainted: HashSet<(usize, usize)>,
}

fn mk_node(id: ChitchatId, params: &Params) -> Chitchat {
    let mut config = ChitchatConfig::for_test(id.gossip_advertise_addr.port());
    config.chitchat_id = id;
    config.marked_for_deletion_grace_period = Duration::from_secs(params.grace_secs);
    config.failure_detector_config.dead_node_grace_period =
        Duration::from_secs(params.dead_grace_secs);
    config.failure_detector_config.initial_interval = Duration::from_secs(1);
    config.failure_detector_config.max_interval = Duration::from_secs(10);
    let (_tx, rx) = watch::channel(HashSet::new());
    Chitchat::with_chitchat_id_and_seeds(config, rx, Vec::new())
}

impl Sim {
    fn new(seed: u64, params: &Params) -> Sim {
        let ids: Vec<ChitchatId> = (0..params.num_nodes)
            .map(|i| ChitchatId::for_local_test(10_001 + i as u16))
            .collect();
        let nodes = ids.iter().map(|id| mk_node(id.clone(), params)).collect();
        let models = ids.iter().map(|_| OwnerModel::default()).collect();
        Sim {
            nodes,
            ids,
            models,
            inflight: Vec::new(),
            rng: Rng(seed.wrapping_mul(0x9E3779B97F4A7C15) | 1),
            log: Vec::new(),
            counter: 0,
            big: params.big_values,
            k1_filter: true,
            k1_dropped: 0,
            tainted: HashSet::new(),
        }
    }

    fn owner_idx(&self, id: &ChitchatId) -> Option<usize> {
        self.ids.iter().position(|x| x == id)
    }

    fn do_write(&mut self) {
        let o = self.rng.below(self.nodes.len());
        let key = ["a", "b", "c"][self.rng.below(3)].to_string();
        let op = self.rng.below(4);
        self.counter += 1;
        let mut value = format!("v{}", self.counter);
        if self.big && self.rng.chance(40) {
            let len = 1000 + self.rng.below(45_000);
            for _ in 0..len {
                let c = b"abcdefghijklmnopqrstuvwxyzABCDEFGHIJKLMNOPQRSTUVWXYZ0123456789+/"
                    [self.rng.below(64)];
                value.push(c as char);
            }
        }
        let before = self.nodes[o].self_node_state().max_version();
        let ns = self.nodes[o].self_node_state();
        match op {
            0 => ns.set(&key, &value),
            1 => ns.delete(&key),
            2 => ns.set_with_ttl(&key, &value),
            _ => ns.delete_after_ttl(&key),
        }
        let after = ns.max_version();
        if after != before {
            let vv = ns.get_versioned(&key).unwrap().clone();
            assert_eq!(vv.version, after);
            self.log.push(format!(
                "write n{o} op{op} {key}={:?} v{} {:?}",
                &vv.value[..vv.value.len().min(8)],
                vv.version,
                kind_of(&vv.status)
            ));
            self.models[o].history.entry(key).or_default().push(Write {
                version: vv.version,
                value: vv.value.clone(),
                kind: kind_of(&vv.status),
            });
        }
    }

    fn send(&mut self, to: usize, from: usize, msg: ChitchatMessage) {
        let bytes = msg.serialize_to_vec();
        assert!(bytes.len() <= 65_507);
        self.inflight.push((to, from, bytes));
    }

    fn start_handshake(&mut self) {
        let n = self.nodes.len();
        let i = self.rng.below(n);
        let mut j = self.rng.below(n - 1);
        if j >= i {
            j += 1;
        }
        let syn = self.nodes[i].create_syn_message();
        self.log.push(format!("syn n{i}->n{j}"));
        self.send(j, i, syn);
    }

    fn truncate_delta(&mut self, delta: Delta) -> Delta {
        let n = delta.node_deltas.len();
        if n == 0 {
            return delta;
        }
        let j = self.rng.below(n);
        let len_j = delta.node_deltas[j].key_values.len();
        let p = self.rng.below(len_j + 1);
        let keep_smv = self.rng.chance(50);
        let mut ser = DeltaSerializer::with_mtu(60_000_000);
        let now = Instant::now();
        for (idx, nd) in delta.node_deltas.into_iter().enumerate() {
            if idx > j {
                break;
            }
            assert!(ser.try_add_node(
                nd.chitchat_id.clone(),
                nd.last_gc_version,
                nd.from_version_excluded
            ));
            let limit = if idx == j { p } else { nd.key_values.len() };
            let was_empty = nd.key_values.is_empty();
            for kv in nd.key_values.into_iter().take(limit) {
                assert!(ser.try_add_kv(
                    &kv.key,
                    VersionedValue {
                        value: kv.value,
                        version: kv.version,
                        status: kv.status.into_status(now),
                    }
                ));
            }
            if was_empty && nd.max_version > 0 && (idx < j || keep_smv) {
                assert!(ser.try_set_max_version(nd.max_version));
            }
        }
        ser.finish()
    }

    /// True iff applying this delta at node `to` would be an instance of known defect K1:
    /// a copy in the middle of a reset is fed a plain key-value at or below its watermark
    /// while the owner's history has a later tombstone/TTL write at or below that watermark.
    fn is_k1_trigger(&self, to: usize, delta: &Delta) -> bool {
        !self.k1_triggers(to, delta).is_empty()
    }

    fn k1_triggers(&self, to: usize, delta: &Delta) -> Vec<usize> {
        let mut triggered = Vec::new();
        'nodes: for nd in &delta.node_deltas {
            let Some(copy) = self.nodes[to].node_state(&nd.chitchat_id) else {
                continue;
            };
            let Some(o) = self.owner_idx(&nd.chitchat_id) else {
                continue;
            };
            let (g, m) = (copy.last_gc_version(), copy.max_version());
            if g <= m {
                continue;
            }
            // would it be applied without reset?
            if nd.from_version_excluded > m {
                continue;
            }
            let compatible = nd.last_gc_version <= g || nd.last_gc_version <= m;
            if !compatible {
                continue;
            }
            for kv in &nd.key_values {
                if kv.version <= m || kv.version > g {
                    continue;
                }
                if kv.status.scheduled_for_deletion() {
                    continue;
                }
                if let Some(hist) = self.models[o].history.get(&kv.key) {
                    if hist
                        .iter()
                        .any(|w| w.version > kv.version && w.version <= g && w.kind != Kind::Set)
                    {
                        triggered.push(o);
                        continue 'nodes;
                    }
                }
            }
        }
        triggered
    }

    /// Marks the copies that a loss-free delivery contaminates with K1 (directly, or because
    /// the sender's copy is itself contaminated).
    fn taint_on_delivery(&mut self, to: usize, from: Option<usize>, delta: &Delta) {
        for o in self.k1_triggers(to, delta) {
            self.tainted.insert((to, o));
        }
        if let Some(from) = from {
            for nd in &delta.node_deltas {
                if let Some(o) = self.owner_idx(&nd.chitchat_id) {
                    if self.tainted.contains(&(from, o)) {
                        self.tainted.insert((to, o));
                    }
                }
            }
        }
    }

    fn deliver(&mut self, truncate_pct: usize, dup_pct: usize) {
        if self.inflight.is_empty() {
            return;
        }
        let idx = self.rng.below(self.inflight.len());
        let (to, from, bytes) = if self.rng.chance(dup_pct) {
            self.inflight[idx].clone()
        } else {
            self.inflight.swap_remove(idx)
        };
        let mut msg = ChitchatMessage::deserialize(&mut &bytes[..]).unwrap();
        if self.rng.chance(truncate_pct) {
            msg = match msg {
                ChitchatMessage::SynAck { digest, delta } => ChitchatMessage::SynAck {
                    digest,
                    delta: self.truncate_delta(delta),
                },
                ChitchatMessage::Ack { delta } => ChitchatMessage::Ack {
                    delta: self.truncate_delta(delta),
                },
                other => other,
            };
        }
        let delta_opt = match &msg {
            ChitchatMessage::SynAck { delta, .. } => Some(delta),
            ChitchatMessage::Ack { delta } => Some(delta),
            _ => None,
        };
        if self.k1_filter {
            if let Some(delta) = delta_opt {
                if self.is_k1_trigger(to, delta) {
                    self.k1_dropped += 1;
                    self.log.push(format!("drop(K1) n{from}->n{to}"));
                    return;
                }
            }
        }
        if !self.big {
            self.log.push(format!("deliver n{from}->n{to} {msg:?}"));
        }
        if let Some(reply) = self.nodes[to].process_message(msg) {
            self.send(from, to, reply);
        }
    }

    fn taint_if_k1(&mut self, to: usize, from: usize, msg: &ChitchatMessage) {
        let delta = match msg {
            ChitchatMessage::SynAck { delta, .. } => delta,
            ChitchatMessage::Ack { delta } => delta,
            _ => return,
        };
        self.taint_on_delivery(to, Some(from), delta);
    }

    fn catchup(&mut self) {
        let n = self.nodes.len();
        let dst = self.rng.below(n);
        let src = self.rng.below(n);
        let member = self.rng.below(n);
        if dst == src || dst == member {
            return;
        }
        let id = self.ids[member].clone();
        let Some(copy) = self.nodes[src].node_state(&id) else {
            return;
        };
        let kvs: Vec<(String, VersionedValue)> = copy
            .key_values_including_deleted()
            .map(|(k, v)| (k.to_string(), v.clone()))
            .collect();
        let (g, m) = (copy.last_gc_version(), copy.max_version());
        self.log.push(format!("catchup n{dst} <- n{src} about n{member} (G={g}, M={m})"));
        self.nodes[dst].reset_node_state_if_update(&id, kvs.into_iter(), m, g);
    }

    fn full_handshake(&mut self, i: usize, j: usize) {
        let syn = self.nodes[i].create_syn_message();
        let syn = roundtrip(syn);
        let synack = self.nodes[j].process_message(syn).unwrap();
        let synack = roundtrip(synack);
        self.taint_if_k1(i, j, &synack);
        let ack = self.nodes[i].process_message(synack).unwrap();
        let ack = roundtrip(ack);
        self.taint_if_k1(j, i, &ack);
        assert!(self.nodes[j].process_message(ack).is_none());
    }

    fn check_c02(&self) -> Result<(), String> {
        for (n, node) in self.nodes.iter().enumerate() {
            for (id, copy) in node.node_states() {
                let Some(o) = self.owner_idx(id) else { continue };
                if self.tainted.contains(&(n, o)) {
                    continue;
                }
                let (g, m) = (copy.last_gc_version(), copy.max_version());
                for (key, hist) in &self.models[o].history {
                    let latest = hist.last().unwrap();
                    if latest.version > m {
                        continue;
                    }
                    match copy.get_versioned(key) {
                        Some(vv) => {
                            if vv.version != latest.version
                                || vv.value != latest.value
                                || kind_of(&vv.status) != latest.kind
                            {
                                return Err(format!(
                                    "C02: node n{n} copy of n{o} (G={g}, M={m}) key {key}: holds \
                                     {vv:?} but latest write is {latest:?}"
                                ));
                            }
                        }
                        None => {
                            if !(latest.kind != Kind::Set && latest.version <= g) {
                                return Err(format!(
                                    "C02: node n{n} copy of n{o} (G={g}, M={m}) key {key}: \
                                     absent but latest write is {latest:?}"
                                ));
                            }
                        }
                    }
                }
                // keys unknown to the model
                for (key, _) in copy.key_values_including_deleted() {
                    if !self.models[o].history.contains_key(key) {
                        return Err(format!("C02: unknown key {key}"));
                    }
                }
            }
        }
        Ok(())
    }

    fn frontiers(&self) -> Vec<BTreeMap<ChitchatId, (u64, u64)>> {
        self.nodes
            .iter()
            .map(|node| {
                node.node_states()
                    .iter()
                    .map(|(id, ns)| (id.clone(), (ns.last_gc_version(), ns.max_version())))
                    .collect()
            })
            .collect()
    }
}

fn roundtrip(msg: ChitchatMessage) -> ChitchatMessage {
    let bytes = msg.serialize_to_vec();
    assert!(bytes.len() <= 65_507);
    ChitchatMessage::deserialize(&mut &bytes[..]).unwrap()
}

async fn run_one(seed: u64, params: &Params) -> Result<(), String> {
    run_one_with_filter(seed, params, true).await
}

async fn run_one_with_filter(seed: u64, params: &Params, k1_filter: bool) -> Result<(), String> {
    let mut sim = Sim::new(seed, params);
    sim.k1_filter = k1_filter;
    let mut prev = sim.frontiers();
    for _step in 0..params.steps {
        let r = sim.rng.below(100);
        if r < 22 {
            sim.do_write();
        } else if r < 42 {
            sim.start_handshake();
        } else if r < 77 {
            sim.deliver(35, 15);
        } else if r < 82 {
            if !sim.inflight.is_empty() {
                let idx = sim.rng.below(sim.inflight.len());
                sim.inflight.swap_remove(idx);
            }
        } else if r < 84 && params.catchup {
            sim.catchup();
        } else if r < 91 {
            let secs = 1 + sim.rng.below(6) as u64;
            tokio::time::advance(Duration::from_secs(secs)).await;
            sim.log.push(format!("advance {secs}s"));
        } else {
            let n = sim.rng.below(sim.nodes.len());
            sim.nodes[n].gc_keys_marked_for_deletion();
            sim.log.push(format!("gc n{n}"));
            if params.liveness && sim.rng.chance(50) {
                sim.nodes[n].update_nodes_liveness();
                sim.log.push(format!("liveness n{n}"));
            }
        }
        if let Err(err) = sim.check_c02() {
            let tail: Vec<String> = sim.log.iter().rev().take(60).rev().cloned().collect();
            return Err(format!("seed {seed}: {err}\n{}", tail.join("\n")));
        }
        // monotonicity of every copy
        let cur = sim.frontiers();
        for (n, (p, c)) in prev.iter().zip(cur.iter()).enumerate() {
            for (id, before) in p {
                if let Some(after) = c.get(id) {
                    if after < before {
                        return Err(format!(
                            "seed {seed}: node n{n} copy of {id:?} went backward {before:?} -> \
                             {after:?}"
                        ));
                    }
                }
            }
        }
        prev = cur;
    }
    // Convergence phase: writes stop, no loss.
    sim.inflight.clear();
    let n = sim.nodes.len();
    let mut converged_at = None;
    for round in 0..40 {
        for i in 0..n {
            for j in 0..n {
                if i == j {
                    continue;
                }
                let before = sim.frontiers();
                // does one side hold newer data for a member?
                let mut newer = false;
                for (id, (_, ma)) in &before[i] {
                    let mb = before[j].get(id).map(|x| x.1).unwrap_or(0);
                    if *ma != mb {
                        newer = true;
                    }
                }
                for (id, (_, mb)) in &before[j] {
                    let ma = before[i].get(id).map(|x| x.1).unwrap_or(0);
                    if ma != *mb {
                        newer = true;
                    }
                }
                sim.full_handshake(i, j);
                let after = sim.frontiers();
                if newer && !params.liveness {
                    let mut advanced = false;
                    for x in [i, j] {
                        for (id, fr) in &after[x] {
                            let old = before[x].get(id).copied().unwrap_or((0, 0));
                            if *fr > old {
                                advanced = true;
                            }
                        }
                    }
                    if !advanced {
                        return Err(format!(
                            "seed {seed}: C01b handshake n{i}<->n{j} advanced nothing: before \
                             {:?} / {:?}",
                            before[i], before[j]
                        ));
                    }
                }
            }
        }
        if let Err(err) = sim.check_c02() {
            return Err(format!("seed {seed}: (convergence phase) {err}"));
        }
        // converged?
        let fr = sim.frontiers();
        let mut ok = true;
        for (o, id) in sim.ids.iter().enumerate() {
            let owner_m = fr[o][id].1;
            for (x, f) in fr.iter().enumerate() {
                match f.get(id) {
                    Some((_, m)) if *m == owner_m => {}
                    other => {
                        if round == 39 {
                            return Err(format!(
                                "seed {seed}: C01 not converged: node n{x} copy of n{o} is \
                                 {other:?}, owner max {owner_m}"
                            ));
                        }
                        ok = false;
                    }
                }
            }
        }
        if ok {
            converged_at = Some(round);
            break;
        }
        if params.liveness {
            tokio::time::advance(Duration::from_millis(500)).await;
            for k in 0..n {
                sim.nodes[k].update_nodes_liveness();
            }
        }
    }
    let _ = converged_at;
    Ok(())
}

#[tokio::test(start_paused = true)]
async fn explore_no_liveness() {
    let mut failures = Vec::new();
    let (lo, hi) = seed_range(1, 1500);
    for seed in lo..=hi {
        let params = Params {
            big_values: false,
            catchup: false,
            num_nodes: 2 + (seed % 3) as usize,
            grace_secs: 10,
            steps: 250,
            liveness: false,
            dead_grace_secs: 1_000_000,
        };
        if let Err(err) = run_one(seed, &params).await {
            failures.push(err);
            if failures.len() >= 3 {
                break;
            }
        }
    }
    for f in &failures {
        println!("{f}\n=========");
    }
    assert!(failures.is_empty(), "{} failures", failures.len());
}

// ---------------------------------------------------------------------------------------------
// Mode 2: membership dynamics (failure detector, partitions, crashes, restarts).
// ---------------------------------------------------------------------------------------------

struct Sim2 {
    sim: Sim,
    alive: Vec<bool>,
    slot_of: Vec<usize>,       // process -> address slot
    current: Vec<Option<usize>>, // slot -> alive process
    generation: Vec<u64>,
    group: Vec<u8>, // slot -> partition group
    params: Params,
    resets_seen: usize,
    removed_seen: usize,
}

impl Sim2 {
    fn new(seed: u64, params: Params) -> Sim2 {
        let sim = Sim::new(seed, &params);
        let n = params.num_nodes;
        Sim2 {
            sim,
            alive: vec![true; n],
            slot_of: (0..n).collect(),
            current: (0..n).map(Some).collect(),
            generation: vec![0; n],
            group: vec![0; n],
            params,
            resets_seen: 0,
            removed_seen: 0,
        }
    }

    fn slot_of_addr(&self, id: &ChitchatId) -> usize {
        (id.gossip_advertise_addr.port() - 10_001) as usize
    }

    fn write(&mut self) {
        let alive: Vec<usize> = (0..self.alive.len()).filter(|p| self.alive[*p]).collect();
        if alive.is_empty() {
            return;
        }
        let o = alive[self.sim.rng.below(alive.len())];
        let key = ["a", "b", "c"][self.sim.rng.below(3)].to_string();
        let op = self.sim.rng.below(4);
        self.sim.counter += 1;
        let value = format!("v{}", self.sim.counter);
        let ns = self.sim.nodes[o].self_node_state();
        let before = ns.max_version();
        match op {
            0 => ns.set(&key, &value),
            1 => ns.delete(&key),
            2 => ns.set_with_ttl(&key, &value),
            _ => ns.delete_after_ttl(&key),
        }
        let after = ns.max_version();
        if after != before {
            let vv = ns.get_versioned(&key).unwrap().clone();
            self.sim.log.push(format!(
                "write p{o} op{op} {key}={:?} v{} {:?}",
                vv.value,
                vv.version,
                kind_of(&vv.status)
            ));
            self.sim.models[o].history.entry(key).or_default().push(Write {
                version: vv.version,
                value: vv.value.clone(),
                kind: kind_of(&vv.status),
            });
        }
    }

    fn kill(&mut self) {
        let alive: Vec<usize> = (0..self.alive.len()).filter(|p| self.alive[*p]).collect();
        if alive.len() <= 2 {
            return;
        }
        let p = alive[self.sim.rng.below(alive.len())];
        self.alive[p] = false;
        self.current[self.slot_of[p]] = None;
        self.sim.log.push(format!("kill p{p}"));
    }

    fn restart(&mut self) {
        let free: Vec<usize> = (0..self.current.len())
            .filter(|s| self.current[*s].is_none())
            .collect();
        if free.is_empty() {
            return;
        }
        let slot = free[self.sim.rng.below(free.len())];
        self.generation[slot] += 1;
        let mut id = ChitchatId::for_local_test(10_001 + slot as u16);
        id.generation_id = self.generation[slot];
        let node = mk_node(id.clone(), &self.params);
        let p = self.sim.nodes.len();
        self.sim.nodes.push(node);
        self.sim.ids.push(id);
        self.sim.models.push(OwnerModel::default());
        self.alive.push(true);
        self.slot_of.push(slot);
        self.current[slot] = Some(p);
        self.sim.log.push(format!("restart slot{slot} as p{p}"));
    }

    fn gossip_round(&mut self, p: usize, faults: bool) {
        self.sim.nodes[p].gc_keys_marked_for_deletion();
        // pick targets: every known node address + seed slot 0, choose one or two at random
        let mut addrs: Vec<usize> = self.sim.nodes[p]
            .node_states()
            .keys()
            .map(|id| self.slot_of_addr(id))
            .filter(|s| *s != self.slot_of[p])
            .collect();
        if self.sim.rng.chance(30) {
            for slot in 0..self.current.len() {
                if slot != self.slot_of[p] {
                    addrs.push(slot);
                }
            }
        }
        addrs.sort();
        addrs.dedup();
        let k = 1 + self.sim.rng.below(2);
        for _ in 0..k {
            if addrs.is_empty() {
                break;
            }
            let slot = addrs[self.sim.rng.below(addrs.len())];
            let syn = self.sim.nodes[p].create_syn_message();
            let bytes = syn.serialize_to_vec();
            self.sim.inflight.push((slot, self.slot_of[p], bytes));
        }
        self.pump(faults);
        self.sim.nodes[p].update_nodes_liveness();
    }

    /// Delivers in-flight datagrams (to = slot, from = slot).
    fn pump(&mut self, faults: bool) {
        let mut budget = 40;
        while !self.sim.inflight.is_empty() && budget > 0 {
            budget -= 1;
            let idx = self.sim.rng.below(self.sim.inflight.len());
            if faults && self.sim.rng.chance(10) {
                // leave it for later (delay / reorder)
                if self.sim.rng.chance(50) {
                    break;
                }
                continue;
            }
            let (to_slot, from_slot, bytes) = if faults && self.sim.rng.chance(8) {
                self.sim.inflight[idx].clone()
            } else {
                self.sim.inflight.swap_remove(idx)
            };
            if faults && self.sim.rng.chance(8) {
                continue; // drop
            }
            if self.group[to_slot] != self.group[from_slot] {
                continue; // partition
            }
            let Some(to) = self.current[to_slot] else {
                continue;
            };
            let mut msg = ChitchatMessage::deserialize(&mut &bytes[..]).unwrap();
            if faults && self.sim.rng.chance(30) {
                msg = match msg {
                    ChitchatMessage::SynAck { digest, delta } => ChitchatMessage::SynAck {
                        digest,
                        delta: self.sim.truncate_delta(delta),
                    },
                    ChitchatMessage::Ack { delta } => ChitchatMessage::Ack {
                        delta: self.sim.truncate_delta(delta),
                    },
                    other => other,
                };
            }
            let delta_opt = match &msg {
                ChitchatMessage::SynAck { delta, .. } => Some(delta),
                ChitchatMessage::Ack { delta } => Some(delta),
                _ => None,
            };
            let mut taint_list: Vec<(usize, usize)> = Vec::new();
            if let Some(delta) = delta_opt {
                if faults && self.sim.is_k1_trigger(to, delta) {
                    self.sim.k1_dropped += 1;
                    continue;
                }
                for o in self.sim.k1_triggers(to, delta) {
                    taint_list.push((to, o));
                }
                // the sender may be any process that ever lived at `from_slot`
                for nd in &delta.node_deltas {
                    if let Some(o) = self.sim.owner_idx(&nd.chitchat_id) {
                        for from in 0..self.slot_of.len() {
                            if self.slot_of[from] == from_slot
                                && self.sim.tainted.contains(&(from, o))
                            {
                                taint_list.push((to, o));
                            }
                        }
                    }
                }
            }
            self.sim.tainted.extend(taint_list);
            self.sim.log.push(format!("deliver slot{from_slot}->p{to} {msg:?}"));
            let before: BTreeMap<ChitchatId, (u64, u64)> = self.sim.nodes[to]
                .node_states()
                .iter()
                .map(|(id, ns)| (id.clone(), (ns.last_gc_version(), ns.max_version())))
                .collect();
            if let Some(reply) = self.sim.nodes[to].process_message(msg) {
                let bytes = reply.serialize_to_vec();
                assert!(bytes.len() <= 65_507);
                self.sim.inflight.push((from_slot, to_slot, bytes));
            }
            for (id, ns) in self.sim.nodes[to].node_states() {
                if let Some(b) = before.get(id) {
                    let a = (ns.last_gc_version(), ns.max_version());
                    assert!(a >= *b, "copy went backward");
                    if a.0 > b.0 && a.1 < b.1 {
                        self.resets_seen += 1;
                    }
                }
            }
        }
    }

    fn check(&self) -> Result<(), String> {
        // only alive processes are checked
        for (n, node) in self.sim.nodes.iter().enumerate() {
            if !self.alive[n] {
                continue;
            }
            for (id, copy) in node.node_states() {
                let Some(o) = self.sim.owner_idx(id) else { continue };
                if self.sim.tainted.contains(&(n, o)) {
                    continue;
                }
                let (g, m) = (copy.last_gc_version(), copy.max_version());
                for (key, hist) in &self.sim.models[o].history {
                    let latest = hist.last().unwrap();
                    if latest.version > m {
                        continue;
                    }
                    match copy.get_versioned(key) {
                        Some(vv) => {
                            if vv.version != latest.version
                                || vv.value != latest.value
                                || kind_of(&vv.status) != latest.kind
                            {
                                return Err(format!(
                                    "C02: p{n} copy of p{o} (G={g}, M={m}) key {key}: holds \
                                     {vv:?} but latest write is {latest:?}"
                                ));
                            }
                        }
                        None => {
                            if !(latest.kind != Kind::Set && latest.version <= g) {
                                return Err(format!(
                                    "C02: p{n} copy of p{o} (G={g}, M={m}) key {key}: absent but \
                                     latest write is {latest:?}"
                                ));
                            }
                        }
                    }
                }
            }
        }
        Ok(())
    }
}

async fn run_two(seed: u64, params: Params) -> Result<(usize, usize, usize), String> {
    let ticks = params.steps;
    let mut s = Sim2::new(seed, params);
    for _tick in 0..ticks {
        tokio::time::advance(Duration::from_millis(1000)).await;
        s.sim.log.push("tick".to_string());
        let nproc = s.alive.len();
        for _ in 0..s.sim.rng.below(3) {
            s.write();
        }
        let r = s.sim.rng.below(100);
        if r < 3 {
            s.kill();
        } else if r < 8 {
            s.restart();
        } else if r < 12 {
            // change partition
            let nslots = s.group.len();
            if s.sim.rng.chance(50) {
                for gslot in 0..nslots {
                    s.group[gslot] = 0;
                }
                s.sim.log.push("heal".to_string());
            } else {
                for gslot in 0..nslots {
                    s.group[gslot] = s.sim.rng.below(2) as u8;
                }
                s.sim.log.push(format!("partition {:?}", s.group));
            }
        }
        for p in 0..nproc {
            if s.alive[p] && s.sim.rng.chance(85) {
                s.gossip_round(p, true);
                if let Err(err) = s.check() {
                    let tail: Vec<String> =
                        s.sim.log.iter().rev().take(80).rev().cloned().collect();
                    return Err(format!("seed {seed}: {err}\n{}", tail.join("\n")));
                }
            }
        }
        let known: usize = s
            .sim
            .nodes
            .iter()
            .enumerate()
            .filter(|(p, _)| s.alive[*p])
            .map(|(_, n)| n.node_states().len())
            .sum();
        let _ = known;
    }
    // Stabilisation: heal, no faults, no writes.
    for gslot in 0..s.group.len() {
        s.group[gslot] = 0;
    }
    s.sim.inflight.clear();
    let mut last_err = String::new();
    for tick in 0..200 {
        tokio::time::advance(Duration::from_millis(1000)).await;
        let nproc = s.alive.len();
        for p in 0..nproc {
            if s.alive[p] {
                s.gossip_round(p, false);
            }
        }
        if let Err(err) = s.check() {
            return Err(format!("seed {seed}: (stabilisation) {err}"));
        }
        // convergence among alive processes
        let mut ok = true;
        for o in 0..nproc {
            if !s.alive[o] {
                continue;
            }
            let owner_m = s.sim.nodes[o].self_node_state().max_version();
            for x in 0..nproc {
                if !s.alive[x] {
                    continue;
                }
                let m = s.sim.nodes[x].node_state(&s.sim.ids[o]).map(|ns| ns.max_version());
                if m != Some(owner_m) {
                    ok = false;
                    last_err = format!(
                        "seed {seed}: C01 tick {tick}: p{x} copy of p{o} at {m:?}, owner {owner_m}"
                    );
                }
            }
        }
        if ok {
            return Ok((tick, s.resets_seen, s.sim.k1_dropped));
        }
    }
    Err(last_err)
}

#[tokio::test(start_paused = true)]
async fn explore_membership() {
    let mut failures = Vec::new();
    let mut max_tick = 0;
    let mut resets = 0;
    let mut k1 = 0;
    let (lo, hi) = seed_range(1, 300);
    for seed in lo..=hi {
        let params = Params {
            big_values: false,
            catchup: false,
            num_nodes: 3 + (seed % 3) as usize,
            grace_secs: 6 + (seed % 7),
            steps: 200,
            liveness: true,
            dead_grace_secs: 16 + (seed % 5) * 10,
        };
        match run_two(seed, params).await {
            Ok((tick, r, k)) => {
                max_tick = max_tick.max(tick);
                resets += r;
                k1 += k;
            }
            Err(err) => {
                failures.push(err);
                if failures.len() >= 3 {
                    break;
                }
            }
        }
    }
    println!("max convergence tick {max_tick}, resets {resets}, k1 drops {k1}");
    for f in &failures {
        println!("{f}\n=========");
    }
    assert!(failures.is_empty(), "{} failures", failures.len());
}

#[tokio::test(start_paused = true)]
async fn explore_big_and_catchup() {
    let mut failures = Vec::new();
    for seed in 1..=400u64 {
        let params = Params {
            big_values: seed % 2 == 0,
            catchup: true,
            num_nodes: 2 + (seed % 3) as usize,
            grace_secs: 10,
            steps: 200,
            liveness: false,
            dead_grace_secs: 1_000_000,
        };
        if let Err(err) = run_one(seed, &params).await {
            failures.push(err);
            if failures.len() >= 3 {
                break;
            }
        }
    }
    for f in &failures {
        println!("{f}\n=========");
    }
    assert!(failures.is_empty(), "{} failures", failures.len());
}

#[tokio::test(start_paused = true)]
async fn explore_boundaries() {
    let mut failures = Vec::new();
    for seed in 1..=500u64 {
        let params = Params {
            big_values: false,
            catchup: seed % 4 == 0,
            num_nodes: 2 + (seed % 4) as usize,
            grace_secs: seed % 3, // 0, 1, 2
            steps: 250,
            liveness: false,
            dead_grace_secs: 1_000_000,
        };
        if let Err(err) = run_one(seed, &params).await {
            failures.push(err);
            if failures.len() >= 3 {
                break;
            }
        }
    }
    for seed in 1..=150u64 {
        let params = Params {
            big_values: false,
            catchup: false,
            num_nodes: 3 + (seed % 3) as usize,
            grace_secs: seed % 4,
            steps: 150,
            liveness: true,
            dead_grace_secs: 2 + (seed % 7) * 3,
        };
        if let Err(err) = run_two(seed, params).await {
            failures.push(err);
            if failures.len() >= 6 {
                break;
            }
        }
    }
    for f in &failures {
        println!("{f}\n=========");
    }
    assert!(failures.is_empty(), "{} failures", failures.len());
}

/// Sanity check of the oracle: with the K1 filter off, the known defect K1 is found.
#[tokio::test(start_paused = true)]
async fn sanity_oracle_finds_k1_when_not_filtered() {
    let mut found = 0;
    for seed in 1..=1500u64 {
        let params = Params {
            big_values: false,
            catchup: false,
            num_nodes: 2 + (seed % 3) as usize,
            grace_secs: 10,
            steps: 250,
            liveness: false,
            dead_grace_secs: 1_000_000,
        };
        if let Err(err) = run_one_with_filter(seed, &params, false).await {
            if found == 0 {
                println!("{}", &err[..err.len().min(600)]);
            }
            found += 1;
        }
    }
    println!("K1 instances: {found}");
    assert!(found > 0);
}

/// `HUNT_SEEDS=lo..hi` overrides the default seed range of the two main explorations.
fn seed_range(lo: u64, hi: u64) -> (u64, u64) {
    if let Ok(spec) = std::env::var("HUNT_SEEDS") {
        if let Some((a, b)) = spec.split_once("..") {
            if let (Ok(a), Ok(b)) = (a.parse(), b.parse()) {
                return (a, b);
            }
        }
    }
    (lo, hi)
}

/// OUT OF SCOPE observation (not a finding against C02 as quantified: the quantifier of C02
/// has neither the catch-up entry point nor panicking callbacks). Run with `-- --ignored`.
///
/// `reset_node_state_if_update` moves the max version forward key by key (through
/// `set_versioned_value`) before it removes the keys that the supplied state no longer has and
/// before it adopts the supplied watermark. A listener that panics on the first supplied key
/// leaves the copy at the supplied max version with its old content: a key deleted and
/// collected by the owner stays visible, and gossip never repairs it (the frontier is up to
/// date, later deltas are incremental).
#[tokio::test(start_paused = true)]
#[ignore]
async fn observation_catchup_interrupted_by_panicking_listener() {
    let params = Params {
        big_values: false,
        catchup: false,
        num_nodes: 2,
        grace_secs: 10,
        steps: 0,
        liveness: false,
        dead_grace_secs: 1_000_000,
    };
    let mut node = mk_node(ChitchatId::for_local_test(10_001), &params);
    let x = ChitchatId::for_local_test(10_002);
    // Copy of x: k written at version 2, frontier (watermark 0, max version 3).
    node.reset_node_state_if_update(
        &x,
        vec![("k".to_string(), VersionedValue::for_test("old", 2))].into_iter(),
        3,
        0,
    );
    node.subscribe_event("j", |_| panic!("user callback")).forever();
    // Since then x deleted k at version 6, collected the tombstone (watermark 6) and wrote j
    // at version 8. That state is supplied through the catch-up entry point.
    let res = std::panic::catch_unwind(std::panic::AssertUnwindSafe(|| {
        node.reset_node_state_if_update(
            &x,
            vec![("j".to_string(), VersionedValue::for_test("new", 8))].into_iter(),
            8,
            6,
        );
    }));
    assert!(res.is_err(), "the listener panics");
    let copy = node.node_state(&x).unwrap();
    assert!(
        !(copy.max_version() >= 6 && copy.last_gc_version() < 6 && copy.get("k").is_some()),
        "copy of x is at (watermark {}, max version {}) and still shows k = {:?}, deleted by x \
         at version 6",
        copy.last_gc_version(),
        copy.max_version(),
        copy.get("k")
    );
}
