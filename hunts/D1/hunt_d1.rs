//! Bug hunting D1: owner-side API (C06) and version/frontier monotonicity (C04).
//!
//! Explorer 1: exhaustive / random owner-only op sequences against an independent model.
//! Explorer 2: several real Chitchat instances, every message through the wire format,
//! duplicated / stale / reordered deliveries, GC passes everywhere, catch-up with snapshots of
//! honest copies.

use std::collections::{BTreeMap, HashMap, HashSet};
use std::time::Duration;

use tokio::sync::watch;
use tokio::time::Instant;

use crate::serialize::{Deserializable, Serializable};
use crate::types::DeletionStatus;
use crate::{Chitchat, ChitchatConfig, ChitchatId, ChitchatMessage, Version, VersionedValue};

const GRACE: Duration = Duration::from_secs(10);

// ---------------------------------------------------------------------------------------------
// tiny deterministic PRNG
// ---------------------------------------------------------------------------------------------
struct Prng(u64);
impl Prng {
    fn new(seed: u64) -> Prng {
        Prng(seed.wrapping_mul(0x9E3779B97F4A7C15) ^ 0xD1B54A32D192ED03)
    }
    fn next(&mut self) -> u64 {
        // splitmix64
        self.0 = self.0.wrapping_add(0x9E3779B97F4A7C15);
        let mut z = self.0;
        z = (z ^ (z >> 30)).wrapping_mul(0xBF58476D1CE4E5B9);
        z = (z ^ (z >> 27)).wrapping_mul(0x94D049BB133111EB);
        z ^ (z >> 31)
    }
    fn below(&mut self, n: usize) -> usize {
        (self.next() % (n as u64)) as usize
    }
    fn chance(&mut self, num: u64, den: u64) -> bool {
        self.next() % den < num
    }
}

// ---------------------------------------------------------------------------------------------
// reference model of one owner's key-value map (what C06 predicts)
// ---------------------------------------------------------------------------------------------
#[derive(Clone, Copy, Debug, PartialEq, Eq)]
enum MStatus {
    Set,
    Deleted(Instant),
    Ttl(Instant),
}

#[derive(Clone, Debug)]
struct MEntry {
    value: String,
    version: Version,
    status: MStatus,
}

#[derive(Clone, Debug, Default)]
struct Model {
    kvs: BTreeMap<String, MEntry>,
    max_version: Version,
    last_gc: Version,
}

impl Model {
    fn set(&mut self, k: &str, v: &str) {
        if let Some(e) = self.kvs.get(k) {
            if e.value == v && e.status == MStatus::Set {
                return;
            }
        }
        self.max_version += 1;
        self.kvs.insert(
            k.to_string(),
            MEntry {
                value: v.to_string(),
                version: self.max_version,
                status: MStatus::Set,
            },
        );
    }
    fn set_ttl(&mut self, k: &str, v: &str, now: Instant) {
        if let Some(e) = self.kvs.get(k) {
            if e.value == v && matches!(e.status, MStatus::Ttl(_)) {
                return;
            }
        }
        self.max_version += 1;
        self.kvs.insert(
            k.to_string(),
            MEntry {
                value: v.to_string(),
                version: self.max_version,
                status: MStatus::Ttl(now),
            },
        );
    }
    fn delete(&mut self, k: &str, now: Instant) {
        // deleting an absent key is a no-op. (Deleting an already deleted key consuming a version
        // is a known, accepted behaviour: the model follows it.)
        let Some(e) = self.kvs.get_mut(k) else { return };
        self.max_version += 1;
        e.version = self.max_version;
        e.value = String::new();
        e.status = MStatus::Deleted(now);
    }
    fn delete_after_ttl(&mut self, k: &str, now: Instant) {
        let Some(e) = self.kvs.get_mut(k) else { return };
        if matches!(e.status, MStatus::Deleted(_)) {
            return;
        }
        self.max_version += 1;
        e.version = self.max_version;
        e.status = MStatus::Ttl(now);
    }
    fn gc(&mut self, now: Instant, grace: Duration) {
        let mut highest = self.last_gc;
        self.kvs.retain(|_, e| {
            let t = match e.status {
                MStatus::Set => return true,
                MStatus::Deleted(t) | MStatus::Ttl(t) => t,
            };
            if now.duration_since(t) >= grace {
                highest = highest.max(e.version);
                false
            } else {
                true
            }
        });
        self.last_gc = highest;
    }
    fn visible(&self) -> Vec<(String, String)> {
        self.kvs
            .iter()
            .filter(|(_, e)| !matches!(e.status, MStatus::Deleted(_)))
            .map(|(k, e)| (k.clone(), e.value.clone()))
            .collect()
    }
}

#[derive(Clone, Copy, Debug, PartialEq, Eq)]
enum Op {
    Set(usize, usize),
    SetTtl(usize, usize),
    Del(usize),
    DelTtl(usize),
    Advance(usize),
    Gc,
}

const KEYS: [&str; 4] = ["a", "ab", "", "b"];
const VALUES: [&str; 3] = ["x", "", "y"];
const PREFIXES: [&str; 5] = ["", "a", "ab", "abc", "b"];

fn advances() -> [Duration; 4] {
    [
        GRACE - Duration::from_millis(1),
        Duration::from_millis(1),
        GRACE,
        GRACE / 2,
    ]
}

fn new_chitchat(port: u16) -> Chitchat {
    let mut config = ChitchatConfig::for_test(port);
    config.marked_for_deletion_grace_period = GRACE;
    let (_tx, rx) = watch::channel(HashSet::new());
    Chitchat::with_chitchat_id_and_seeds(config, rx, Vec::new())
}

fn compare_owner(chitchat: &mut Chitchat, model: &Model, history: &dyn std::fmt::Debug) {
    let ns = chitchat.self_node_state();
    assert_eq!(
        ns.max_version(),
        model.max_version,
        "C04/C06 max_version differs after {history:?}"
    );
    assert_eq!(
        ns.last_gc_version(),
        model.last_gc,
        "C06 GC watermark differs after {history:?}"
    );
    let visible = model.visible();
    let actual: Vec<(String, String)> = ns
        .key_values()
        .map(|(k, v)| (k.to_string(), v.to_string()))
        .collect();
    assert_eq!(actual, visible, "C06 full iteration differs after {history:?}");
    assert_eq!(
        ns.num_key_values(),
        visible.len(),
        "C06 count differs after {history:?}"
    );
    for k in KEYS.iter().chain(["abc", "zz"].iter()) {
        let expected = visible
            .iter()
            .find(|(key, _)| key == k)
            .map(|(_, v)| v.as_str());
        assert_eq!(ns.get(k), expected, "C06 get({k:?}) differs after {history:?}");
        assert_eq!(
            ns.contains_key(k),
            expected.is_some(),
            "C06 contains_key({k:?}) differs after {history:?}"
        );
        match (ns.get_versioned(k), model.kvs.get(*k)) {
            (None, None) => {}
            (Some(vv), Some(e)) => {
                assert_eq!(vv.version, e.version, "version of {k:?} after {history:?}");
                assert_eq!(vv.value, e.value, "stored value of {k:?} after {history:?}");
                let same = match (vv.status, e.status) {
                    (DeletionStatus::Set, MStatus::Set) => true,
                    (DeletionStatus::Deleted(a), MStatus::Deleted(b)) => a == b,
                    (DeletionStatus::DeleteAfterTtl(a), MStatus::Ttl(b)) => a == b,
                    _ => false,
                };
                assert!(same, "status of {k:?} after {history:?}: {vv:?} vs {e:?}");
            }
            (a, b) => panic!("C06 presence of {k:?} differs after {history:?}: {a:?} vs {b:?}"),
        }
    }
    for prefix in PREFIXES {
        let expected: Vec<(String, String)> = visible
            .iter()
            .filter(|(k, _)| k.starts_with(prefix))
            .cloned()
            .collect();
        let actual: Vec<(String, String)> = ns
            .iter_prefix(prefix)
            .map(|(k, vv)| (k.to_string(), vv.value.clone()))
            .collect();
        assert_eq!(
            actual, expected,
            "C06 iter_prefix({prefix:?}) differs after {history:?}"
        );
    }
}

async fn run_owner_sequence(ops: &[Op], port: u16) {
    let mut chitchat = new_chitchat(port);
    let mut model = Model::default();
    for (i, op) in ops.iter().enumerate() {
        let now = Instant::now();
        let before_max = chitchat.self_node_state().max_version();
        match *op {
            Op::Set(k, v) => {
                chitchat.self_node_state().set(KEYS[k], VALUES[v]);
                model.set(KEYS[k], VALUES[v]);
            }
            Op::SetTtl(k, v) => {
                chitchat.self_node_state().set_with_ttl(KEYS[k], VALUES[v]);
                model.set_ttl(KEYS[k], VALUES[v], now);
            }
            Op::Del(k) => {
                chitchat.self_node_state().delete(KEYS[k]);
                model.delete(KEYS[k], now);
            }
            Op::DelTtl(k) => {
                chitchat.self_node_state().delete_after_ttl(KEYS[k]);
                model.delete_after_ttl(KEYS[k], now);
            }
            Op::Advance(a) => {
                tokio::time::advance(advances()[a]).await;
            }
            Op::Gc => {
                chitchat.gc_keys_marked_for_deletion();
                model.gc(now, GRACE);
            }
        }
        let after_max = chitchat.self_node_state().max_version();
        assert!(
            after_max == before_max || after_max == before_max + 1,
            "C04: version jump {before_max} -> {after_max} in {:?}",
            &ops[..=i]
        );
        compare_owner(&mut chitchat, &model, &&ops[..=i]);
    }
}

fn all_ops(num_keys: usize, num_values: usize, num_advances: usize) -> Vec<Op> {
    let mut ops = Vec::new();
    for k in 0..num_keys {
        for v in 0..num_values {
            ops.push(Op::Set(k, v));
            ops.push(Op::SetTtl(k, v));
        }
        ops.push(Op::Del(k));
        ops.push(Op::DelTtl(k));
    }
    for a in 0..num_advances {
        ops.push(Op::Advance(a));
    }
    ops.push(Op::Gc);
    ops
}

/// Exhaustive: every sequence up to length 5 over 2 keys ("a", "ab"), 2 values, 3 advances;
/// every sequence up to length 4 over the larger alphabet.
#[tokio::test(start_paused = true)]
async fn hunt_d1_owner_exhaustive() {
    async fn explore(alphabet: &[Op], max_len: usize) -> usize {
        let mut count = 0usize;
        let mut idx = vec![0usize; max_len];
        loop {
            let ops: Vec<Op> = idx.iter().map(|&i| alphabet[i]).collect();
            // every prefix is checked step by step inside run_owner_sequence.
            run_owner_sequence(&ops, 10_001).await;
            count += 1;
            // next
            let mut pos = max_len;
            loop {
                if pos == 0 {
                    return count;
                }
                pos -= 1;
                idx[pos] += 1;
                if idx[pos] < alphabet.len() {
                    break;
                }
                idx[pos] = 0;
            }
        }
    }
    let small = all_ops(2, 2, 3);
    let n = explore(&small, 5).await;
    eprintln!("explored {n} sequences of length 5 over {} ops", small.len());
    let large = all_ops(4, 3, 4);
    let large_len: usize = std::env::var("HUNT_LARGE_LEN")
        .ok()
        .and_then(|s| s.parse().ok())
        .unwrap_or(3);
    let n = explore(&large, large_len).await;
    eprintln!(
        "explored {n} sequences of length {large_len} over {} ops",
        large.len()
    );
}

#[tokio::test(start_paused = true)]
async fn hunt_d1_owner_random_len40() {
    let alphabet = all_ops(4, 3, 4);
    for seed in 0..20_000u64 {
        let mut rng = Prng::new(seed);
        let ops: Vec<Op> = (0..40)
            .map(|_| {
                // bias towards GC and advances so that collection actually happens.
                if rng.chance(1, 4) {
                    if rng.chance(1, 2) {
                        Op::Gc
                    } else {
                        Op::Advance(rng.below(4))
                    }
                } else {
                    alphabet[rng.below(alphabet.len())]
                }
            })
            .collect();
        run_owner_sequence(&ops, 10_001).await;
    }
}

// ---------------------------------------------------------------------------------------------
// Explorer 2: several nodes, wire format, faults, GC everywhere, catch-up with honest snapshots
// ---------------------------------------------------------------------------------------------

#[derive(Clone, Debug, Default)]
struct CopyTrack {
    gc: Version,
    max: Version,
    /// highest version stored for each key since the last wipe
    floor: BTreeMap<String, Version>,
    /// (version, receipt instant) for each stored key
    receipt: BTreeMap<String, (Version, Instant)>,
}

#[derive(Clone, Copy, Debug, PartialEq, Eq)]
enum StepKind {
    Owner,
    Message,
    Gc,
    CatchUp,
    Liveness,
}

struct SimNode {
    chitchat: Chitchat,
    model: Model,
    tracks: BTreeMap<ChitchatId, CopyTrack>,
    generation: u64,
}

struct Snapshot {
    member: ChitchatId,
    kvs: Vec<(String, VersionedValue)>,
    max: Version,
    gc: Version,
}

struct Sim {
    nodes: Vec<SimNode>,
    inflight: Vec<(usize, usize, Vec<u8>)>,
    snapshots: Vec<Snapshot>,
    log: Vec<String>,
    big: Vec<String>,
    stats: HashMap<&'static str, usize>,
}

const SIM_KEYS: [&str; 6] = ["a", "ab", "", "b", "ba", "c"];

fn sim_config(idx: usize, generation: u64) -> ChitchatConfig {
    let port = 20_000 + idx as u16;
    let mut config = ChitchatConfig::for_test(port);
    config.chitchat_id.generation_id = generation;
    config.marked_for_deletion_grace_period = GRACE;
    config.failure_detector_config.dead_node_grace_period = Duration::from_secs(40);
    config
}

fn sim_node(idx: usize, generation: u64) -> SimNode {
    let (_tx, rx) = watch::channel(HashSet::new());
    let chitchat =
        Chitchat::with_chitchat_id_and_seeds(sim_config(idx, generation), rx, Vec::new());
    SimNode {
        chitchat,
        model: Model::default(),
        tracks: BTreeMap::new(),
        generation,
    }
}

fn is_marked(vv: &VersionedValue) -> bool {
    !matches!(vv.status, DeletionStatus::Set)
}

impl Sim {
    fn new(num_nodes: usize, rng: &mut Prng) -> Sim {
        let mut big = Vec::new();
        for _ in 0..2 {
            let s: String = (0..22_000)
                .map(|_| (32u8 + (rng.next() % 95) as u8) as char)
                .collect();
            big.push(s);
        }
        Sim {
            nodes: (0..num_nodes).map(|i| sim_node(i, 0)).collect(),
            inflight: Vec::new(),
            snapshots: Vec::new(),
            log: Vec::new(),
            big,
            stats: HashMap::new(),
        }
    }

    fn stat(&mut self, name: &'static str) {
        *self.stats.entry(name).or_default() += 1;
    }

    fn fail(&self, msg: String) -> ! {
        let tail: Vec<&String> = self.log.iter().rev().take(80).rev().collect();
        panic!("{msg}\n--- history (last 80 steps) ---\n{tail:#?}");
    }

    /// Checks the C04 invariants on every copy held by node `n` and maintains the receipt
    /// tracker.
    fn observe(&mut self, n: usize, kind: StepKind) {
        let now = Instant::now();
        let mut errors: Vec<String> = Vec::new();
        let mut wipes = 0;
        let mut midreset = 0;
        let node = &mut self.nodes[n];
        let present: HashSet<ChitchatId> = node.chitchat.node_states().keys().cloned().collect();
        // A member that was removed (dead node GC) ends the life of its copy.
        node.tracks.retain(|id, _| present.contains(id));
        for (id, ns) in node.chitchat.node_states() {
            let track = node.tracks.entry(id.clone()).or_default();
            let (gc, max) = (ns.last_gc_version(), ns.max_version());
            if (gc, max) < (track.gc, track.max) {
                errors.push(format!(
                    "C04: on node {n} copy of {id:?}: (watermark,max) went from ({},{}) to \
                     ({gc},{max}) in a {kind:?} step",
                    track.gc, track.max
                ));
            }
            if gc > max {
                midreset += 1;
            }
            let wiped = kind == StepKind::Message && gc > track.gc;
            if wiped {
                wipes += 1;
                track.floor.clear();
                track.receipt.clear();
            }
            let stored: BTreeMap<&str, &VersionedValue> =
                ns.key_values_including_deleted().collect();
            let mut seen_versions: HashSet<Version> = HashSet::new();
            for (key, vv) in &stored {
                if vv.version > max {
                    errors.push(format!(
                        "on node {n} copy of {id:?}: key {key:?} version {} above max_version \
                         {max}",
                        vv.version
                    ));
                }
                if !seen_versions.insert(vv.version) {
                    errors.push(format!(
                        "on node {n} copy of {id:?}: two keys at version {}",
                        vv.version
                    ));
                }
                if let Some(floor) = track.floor.get(*key) {
                    if vv.version < *floor {
                        errors.push(format!(
                            "C04: on node {n} copy of {id:?}: key {key:?} version went from \
                             {floor} to {} without a wipe ({kind:?} step)",
                            vv.version
                        ));
                    }
                }
                track.floor.insert(key.to_string(), vv.version);
                let changed = match track.receipt.get(*key) {
                    Some((version, _)) => *version != vv.version,
                    None => true,
                };
                if changed {
                    let receipt = if kind == StepKind::CatchUp {
                        vv.status
                            .time_of_start_scheduled_for_deletion()
                            .unwrap_or(now)
                    } else {
                        now
                    };
                    track.receipt.insert(key.to_string(), (vv.version, receipt));
                }
                // the library's own clock must agree with the receipt we observed
                if let Some(t) = vv.status.time_of_start_scheduled_for_deletion() {
                    let (_, receipt) = track.receipt[*key];
                    if t != receipt {
                        errors.push(format!(
                            "C06: on node {n} copy of {id:?}: key {key:?}@{} clock {:?} differs \
                             from its receipt {:?} ({kind:?} step)",
                            vv.version, t, receipt
                        ));
                    }
                }
            }
            track
                .receipt
                .retain(|key, _| stored.contains_key(key.as_str()));
            track.gc = gc;
            track.max = max;
        }
        for _ in 0..wipes {
            self.stat("wipe");
        }
        for _ in 0..midreset {
            self.stat("midreset-observed");
        }
        if let Some(err) = errors.into_iter().next() {
            self.fail(err);
        }
    }

    fn compare_owner_model(&mut self, n: usize) {
        let node = &mut self.nodes[n];
        let model = node.model.clone();
        let ns = node.chitchat.self_node_state();
        let mut error = None;
        if ns.max_version() != model.max_version {
            error = Some(format!(
                "C04/C06: owner {n} max_version {} but the model says {}",
                ns.max_version(),
                model.max_version
            ));
        }
        if ns.last_gc_version() != model.last_gc {
            error = Some(format!(
                "C06: owner {n} watermark {} but the model says {}",
                ns.last_gc_version(),
                model.last_gc
            ));
        }
        let visible = model.visible();
        let actual: Vec<(String, String)> = ns
            .key_values()
            .map(|(k, v)| (k.to_string(), v.to_string()))
            .collect();
        if actual != visible {
            let short = |v: &Vec<(String, String)>| -> Vec<(String, usize)> {
                v.iter().map(|(k, v)| (k.clone(), v.len())).collect()
            };
            error = Some(format!(
                "C06: owner {n} reads {:?} but the model says {:?}",
                short(&actual),
                short(&visible)
            ));
        }
        for prefix in PREFIXES {
            let expected: Vec<&str> = visible
                .iter()
                .filter(|(k, _)| k.starts_with(prefix))
                .map(|(k, _)| k.as_str())
                .collect();
            let actual: Vec<&str> = ns.iter_prefix(prefix).map(|(k, _)| k).collect();
            if actual != expected {
                error = Some(format!(
                    "C06: owner {n} iter_prefix({prefix:?}) {actual:?} but the model says \
                     {expected:?}"
                ));
            }
        }
        for (k, e) in &model.kvs {
            match ns.get_versioned(k) {
                Some(vv) if vv.version == e.version => {}
                other => {
                    error = Some(format!(
                        "C06: owner {n} key {k:?}: {other:?} but the model says version {}",
                        e.version
                    ));
                }
            }
        }
        if let Some(error) = error {
            self.fail(error);
        }
    }

    fn owner_op(&mut self, n: usize, rng: &mut Prng) {
        let now = Instant::now();
        let key = SIM_KEYS[rng.below(SIM_KEYS.len())];
        let value: String = match rng.below(12) {
            0 | 1 | 2 | 3 => "x".to_string(),
            4 | 5 | 6 => "y".to_string(),
            7 | 8 => String::new(),
            9 => self.big[0].clone(),
            _ => self.big[1].clone(),
        };
        let node = &mut self.nodes[n];
        let before = node.chitchat.self_node_state().max_version();
        let what;
        match rng.below(8) {
            0 | 1 | 2 => {
                what = format!("n{n}.set({key:?}, len {})", value.len());
                node.chitchat.self_node_state().set(key, &value);
                node.model.set(key, &value);
            }
            3 => {
                what = format!("n{n}.set_with_ttl({key:?}, len {})", value.len());
                node.chitchat.self_node_state().set_with_ttl(key, &value);
                node.model.set_ttl(key, &value, now);
            }
            4 | 5 | 6 => {
                what = format!("n{n}.delete({key:?})");
                node.chitchat.self_node_state().delete(key);
                node.model.delete(key, now);
            }
            _ => {
                what = format!("n{n}.delete_after_ttl({key:?})");
                node.chitchat.self_node_state().delete_after_ttl(key);
                node.model.delete_after_ttl(key, now);
            }
        }
        let after = node.chitchat.self_node_state().max_version();
        self.log.push(format!("{what} -> max_version {after}"));
        if !(after == before || after == before + 1) {
            self.fail(format!("C04: owner {n} version jumped from {before} to {after}"));
        }
        self.observe(n, StepKind::Owner);
        self.compare_owner_model(n);
    }

    fn send(&mut self, from: usize, to: usize, msg: &ChitchatMessage) {
        let mut buf = Vec::new();
        msg.serialize(&mut buf);
        if buf.len() > crate::MAX_UDP_DATAGRAM_PAYLOAD_SIZE {
            self.fail(format!("datagram of {} bytes", buf.len()));
        }
        if buf.len() > 36_000 {
            self.stat("near-full-datagram");
        }
        self.inflight.push((from, to, buf));
    }

    fn syn(&mut self, from: usize, to: usize) {
        let msg = self.nodes[from].chitchat.create_syn_message();
        self.log.push(format!("n{from} -> n{to}: SYN"));
        self.send(from, to, &msg);
    }

    fn deliver(&mut self, idx: usize, keep: bool) {
        let (from, to, buf) = if keep {
            self.inflight[idx].clone()
        } else {
            self.inflight.swap_remove(idx)
        };
        let msg = match ChitchatMessage::deserialize(&mut &buf[..]) {
            Ok(msg) => msg,
            Err(err) => self.fail(format!("an honest datagram does not decode: {err:?}")),
        };
        let kind = match &msg {
            ChitchatMessage::Syn { .. } => "SYN",
            ChitchatMessage::SynAck { .. } => "SYNACK",
            ChitchatMessage::Ack { .. } => "ACK",
            _ => "other",
        };
        let detail = match &msg {
            ChitchatMessage::SynAck { delta, .. } | ChitchatMessage::Ack { delta } => delta
                .node_deltas
                .iter()
                .map(|nd| {
                    format!(
                        "[{:?} gc {} from {} max {} kvs {:?}]",
                        nd.chitchat_id,
                        nd.last_gc_version,
                        nd.from_version_excluded,
                        nd.max_version,
                        nd.key_values
                            .iter()
                            .map(|kv| format!("{}@{}:{:?}", kv.key, kv.version, kv.status))
                            .collect::<Vec<_>>()
                    )
                })
                .collect::<Vec<_>>()
                .join(" "),
            ChitchatMessage::Syn { digest, .. } => digest
                .node_digests
                .iter()
                .map(|(id, d)| format!("[{id:?} gc {} max {}]", d.last_gc_version, d.max_version))
                .collect::<Vec<_>>()
                .join(" "),
            _ => String::new(),
        };
        self.log.push(format!(
            "deliver{} {kind} n{from} -> n{to} {detail}",
            if keep { " (copy kept)" } else { "" }
        ));
        let reply = self.nodes[to].chitchat.process_message(msg);
        self.observe(to, StepKind::Message);
        // the owner's own state must not be touched by a message
        self.compare_owner_model(to);
        if let Some(reply) = reply {
            self.send(to, from, &reply);
        }
    }

    fn gc(&mut self, n: usize) {
        let now = Instant::now();
        self.log.push(format!("n{n}.gc()"));
        // expectation from the tracker, for each copy
        let mut expected: BTreeMap<ChitchatId, (BTreeMap<String, Version>, Version)> =
            BTreeMap::new();
        {
            let node = &self.nodes[n];
            for (id, ns) in node.chitchat.node_states() {
                let track = node.tracks.get(id).cloned().unwrap_or_default();
                let mut left = BTreeMap::new();
                let mut watermark = ns.last_gc_version();
                for (key, vv) in ns.key_values_including_deleted() {
                    let old_enough = match track.receipt.get(key) {
                        Some((_, receipt)) => now.duration_since(*receipt) >= GRACE,
                        None => false,
                    };
                    if is_marked(vv) && old_enough {
                        watermark = watermark.max(vv.version);
                    } else {
                        left.insert(key.to_string(), vv.version);
                    }
                }
                expected.insert(id.clone(), (left, watermark));
            }
        }
        self.nodes[n].chitchat.gc_keys_marked_for_deletion();
        self.nodes[n].model.gc(now, GRACE);
        let mut error = None;
        let mut collected = 0;
        for (id, ns) in self.nodes[n].chitchat.node_states() {
            let (left, watermark) = &expected[id];
            let actual: BTreeMap<String, Version> = ns
                .key_values_including_deleted()
                .map(|(k, vv)| (k.to_string(), vv.version))
                .collect();
            if &actual != left {
                error = Some(format!(
                    "C06: GC pass on node {n}, copy of {id:?}: left {actual:?}, expected {left:?}"
                ));
            }
            if ns.last_gc_version() != *watermark {
                error = Some(format!(
                    "C06: GC pass on node {n}, copy of {id:?}: watermark {}, expected {watermark}",
                    ns.last_gc_version()
                ));
            }
            if ns.last_gc_version() > self.nodes[n].tracks.get(id).map(|t| t.gc).unwrap_or(0) {
                collected += 1;
            }
        }
        for _ in 0..collected {
            self.stat("gc-raised-watermark");
        }
        if let Some(error) = error {
            self.fail(error);
        }
        self.observe(n, StepKind::Gc);
        self.compare_owner_model(n);
    }

    fn take_snapshot(&mut self, n: usize, rng: &mut Prng) {
        let ids: Vec<ChitchatId> = self.nodes[n].chitchat.node_states().keys().cloned().collect();
        let member = ids[rng.below(ids.len())].clone();
        let ns = self.nodes[n].chitchat.node_state(&member).unwrap();
        let snapshot = Snapshot {
            member: member.clone(),
            kvs: ns
                .key_values_including_deleted()
                .map(|(k, vv)| (k.to_string(), vv.clone()))
                .collect(),
            max: ns.max_version(),
            gc: ns.last_gc_version(),
        };
        self.log.push(format!(
            "snapshot #{} of {member:?} taken on n{n}: gc {} max {}",
            self.snapshots.len(),
            snapshot.gc,
            snapshot.max
        ));
        self.snapshots.push(snapshot);
    }

    fn catch_up(&mut self, n: usize, rng: &mut Prng) {
        if self.snapshots.is_empty() {
            return;
        }
        let idx = rng.below(self.snapshots.len());
        let snapshot = &self.snapshots[idx];
        if &snapshot.member == self.nodes[n].chitchat.self_chitchat_id() {
            return;
        }
        self.log.push(format!(
            "n{n}.reset_node_state_if_update(snapshot #{idx} of {:?}: gc {} max {} kvs {:?})",
            snapshot.member,
            snapshot.gc,
            snapshot.max,
            snapshot
                .kvs
                .iter()
                .map(|(k, vv)| format!("{k}@{}", vv.version))
                .collect::<Vec<_>>()
        ));
        let member = snapshot.member.clone();
        let kvs = snapshot.kvs.clone();
        let (max, gc) = (snapshot.max, snapshot.gc);
        self.nodes[n]
            .chitchat
            .reset_node_state_if_update(&member, kvs.into_iter(), max, gc);
        self.stat("catch-up");
        self.observe(n, StepKind::CatchUp);
        self.compare_owner_model(n);
    }

    fn liveness(&mut self, n: usize) {
        let before = self.nodes[n].chitchat.node_states().len();
        self.nodes[n].chitchat.update_nodes_liveness();
        let after = self.nodes[n].chitchat.node_states().len();
        self.log.push(format!("n{n}.update_nodes_liveness() members {before} -> {after}"));
        if after < before {
            self.stat("member-removed");
        }
        self.observe(n, StepKind::Liveness);
    }

    fn restart(&mut self, n: usize) {
        let generation = self.nodes[n].generation + 1;
        self.log.push(format!("n{n} restarts with generation {generation}"));
        self.nodes[n] = sim_node(n, generation);
        // datagrams addressed to the old incarnation still reach the address.
        self.stat("restart");
        self.observe(n, StepKind::Owner);
    }
}

async fn run_sim(seed: u64, steps: usize, num_nodes: usize) -> HashMap<&'static str, usize> {
    let mut rng = Prng::new(seed);
    let mut sim = Sim::new(num_nodes, &mut rng);
    // profile of the run
    let restart_rate = [0u64, 1, 3][rng.below(3)];
    let catchup_rate = [0u64, 5, 20][rng.below(3)];
    let dup_rate = [0u64, 10, 30][rng.below(3)];
    let drop_rate = [0u64, 5, 30][rng.below(3)];
    let liveness_rate = [0u64, 10, 40][rng.below(3)];
    for n in 0..num_nodes {
        sim.observe(n, StepKind::Owner);
    }
    for _ in 0..steps {
        let n = rng.below(num_nodes);
        let roll = rng.next() % 1000;
        if roll < 250 {
            sim.owner_op(n, &mut rng);
        } else if roll < 400 {
            let mut to = rng.below(num_nodes);
            if to == n {
                to = (to + 1) % num_nodes;
            }
            sim.syn(n, to);
        } else if roll < 750 {
            if !sim.inflight.is_empty() {
                let idx = rng.below(sim.inflight.len());
                if rng.chance(drop_rate, 100) {
                    sim.inflight.swap_remove(idx);
                } else {
                    let keep = rng.chance(dup_rate, 100);
                    sim.deliver(idx, keep);
                }
                if sim.inflight.len() > 40 {
                    let idx = rng.below(sim.inflight.len());
                    sim.inflight.swap_remove(idx);
                }
            }
        } else if roll < 830 {
            let d = match rng.below(6) {
                0 => Duration::from_millis(1),
                1 => GRACE - Duration::from_millis(1),
                2 => GRACE,
                3 => GRACE / 2,
                4 => Duration::from_secs(1),
                _ => Duration::from_secs(3),
            };
            sim.log.push(format!("advance {d:?}"));
            tokio::time::advance(d).await;
        } else if roll < 900 {
            sim.gc(n);
        } else if roll < 900 + liveness_rate {
            sim.liveness(n);
        } else if roll < 940 + catchup_rate {
            if rng.chance(1, 2) {
                sim.take_snapshot(n, &mut rng);
            } else {
                sim.catch_up(n, &mut rng);
            }
        } else if roll < 960 + restart_rate {
            if restart_rate > 0 && rng.chance(1, 4) {
                sim.restart(n);
            }
        } else {
            // a complete, undisturbed handshake
            let mut to = rng.below(num_nodes);
            if to == n {
                to = (to + 1) % num_nodes;
            }
            sim.syn(n, to);
            let idx = sim.inflight.len() - 1;
            sim.deliver(idx, false);
            let idx = sim.inflight.len() - 1;
            sim.deliver(idx, false);
            if let Some((_, _, _)) = sim.inflight.last() {
                let idx = sim.inflight.len() - 1;
                sim.deliver(idx, false);
            }
        }
    }
    sim.stats
}

#[tokio::test(start_paused = true)]
async fn hunt_d1_cluster_random() {
    let seeds: u64 = std::env::var("HUNT_SEEDS")
        .ok()
        .and_then(|s| s.parse().ok())
        .unwrap_or(300);
    let first: u64 = std::env::var("HUNT_FIRST")
        .ok()
        .and_then(|s| s.parse().ok())
        .unwrap_or(0);
    let mut totals: HashMap<&'static str, usize> = HashMap::new();
    for seed in first..first + seeds {
        let stats = run_sim(seed, 400, 3 + (seed % 2) as usize).await;
        for (k, v) in stats {
            *totals.entry(k).or_default() += v;
        }
    }
    eprintln!("coverage: {totals:?}");
}

// ---------------------------------------------------------------------------------------------
// Explorer 3: C04 on (copy state, delta) pairs, honest or not (random sampling of the scope
// versions 0..6, watermarks 0..6, up to 3 keys).
// ---------------------------------------------------------------------------------------------
#[tokio::test(start_paused = true)]
async fn hunt_d1_pairs_copy_delta() {
    use crate::delta::{Delta, NodeDelta};
    use crate::state::ClusterState;
    use crate::types::{DeletionStatusMutation, KeyValueMutation};

    let samples: u64 = std::env::var("HUNT_PAIRS")
        .ok()
        .and_then(|s| s.parse().ok())
        .unwrap_or(2_000_000);
    let id = ChitchatId::for_local_test(30_000);
    let keys = ["a", "b", "c"];
    let mut rng = Prng::new(77);
    let mut wipes = 0usize;
    let mut applies = 0usize;
    std::panic::set_hook(Box::new(|_| {}));
    for sample in 0..samples {
        let now = Instant::now();
        // copy state
        let gc = rng.below(7) as u64;
        let max = rng.below(7) as u64;
        let mut cluster_state = ClusterState::default();
        let mut before: BTreeMap<String, Version> = BTreeMap::new();
        {
            let ns = cluster_state.node_state_mut_or_init(&id);
            let mut used: HashSet<u64> = HashSet::new();
            for key in keys {
                if max == 0 || rng.chance(1, 3) {
                    continue;
                }
                let version = 1 + rng.below(max as usize) as u64;
                if !used.insert(version) {
                    continue;
                }
                let status = match rng.below(3) {
                    0 => DeletionStatus::Set,
                    1 => DeletionStatus::Deleted(now),
                    _ => DeletionStatus::DeleteAfterTtl(now),
                };
                ns.set_versioned_value(
                    key.to_string(),
                    VersionedValue {
                        value: "v".to_string(),
                        version,
                        status,
                    },
                );
                before.insert(key.to_string(), version);
            }
            ns.set_max_version(max);
            ns.set_last_gc_version(gc);
        }
        // delta
        let d_gc = rng.below(7) as u64;
        let d_from = rng.below(7) as u64;
        let mut kvs: Vec<KeyValueMutation> = Vec::new();
        let mut version = 0u64;
        for _ in 0..rng.below(4) {
            version += 1 + rng.below(3) as u64;
            if version > 6 {
                break;
            }
            kvs.push(KeyValueMutation {
                key: keys[rng.below(3)].to_string(),
                value: "w".to_string(),
                version,
                status: match rng.below(3) {
                    0 => DeletionStatusMutation::Set,
                    1 => DeletionStatusMutation::Delete,
                    _ => DeletionStatusMutation::DeleteAfterTtl,
                },
            });
        }
        let d_max = match kvs.last() {
            Some(kv) => kv.version,
            None => rng.below(7) as u64,
        };
        let description = format!(
            "copy (gc {gc}, max {max}, {before:?}) delta (gc {d_gc}, from {d_from}, max {d_max}, \
             {:?})",
            kvs.iter()
                .map(|kv| format!("{}@{}:{:?}", kv.key, kv.version, kv.status))
                .collect::<Vec<_>>()
        );
        let delta_kvs: Vec<(String, Version)> =
            kvs.iter().map(|kv| (kv.key.clone(), kv.version)).collect();
        let mut delta = Delta::default();
        delta.node_deltas.push(NodeDelta {
            chitchat_id: id.clone(),
            from_version_excluded: d_from,
            last_gc_version: d_gc,
            key_values: kvs,
            max_version: d_max,
        });
        let result = std::panic::catch_unwind(std::panic::AssertUnwindSafe(|| {
            cluster_state.apply_delta(delta)
        }));
        if result.is_err() {
            let _ = std::panic::take_hook();
            panic!("sample {sample}: applying a delta aborted: {description}");
        }
        let ns = cluster_state.node_state(&id).unwrap();
        let (gc2, max2) = (ns.last_gc_version(), ns.max_version());
        assert!(
            (gc2, max2) >= (gc, max),
            "C04: (watermark,max) decreased to ({gc2},{max2}): {description}"
        );
        let after: BTreeMap<String, Version> = ns
            .key_values_including_deleted()
            .map(|(k, vv)| (k.to_string(), vv.version))
            .collect();
        if (gc2, max2) != (gc, max) {
            applies += 1;
        }
        let wiped = gc2 > gc;
        if wiped {
            wipes += 1;
            // the whole copy is gone: whatever is stored comes from the delta
            for (key, version) in &after {
                assert!(
                    delta_kvs.contains(&(key.clone(), *version)),
                    "C04: after a wipe {key:?}@{version} does not come from the delta: \
                     {description} -> {after:?}"
                );
            }
        } else {
            for (key, version) in &before {
                match after.get(key) {
                    Some(version2) => assert!(
                        version2 >= version,
                        "C04: version of {key:?} decreased: {description} -> {after:?}"
                    ),
                    None => panic!("C04: {key:?} vanished without a wipe: {description}"),
                }
            }
        }
        for (key, version) in &after {
            assert!(
                *version <= max2,
                "stored version of {key:?} above max_version {max2}: {description} -> {after:?}"
            );
        }
    }
    let _ = std::panic::take_hook();
    eprintln!("pairs: {samples} samples, {applies} applied, {wipes} wipes, no abort");
}

/// Side observation (boundary value of the configuration, outside C06's quantifier): with
/// `marked_for_deletion_grace_period = Duration::MAX` ("never collect") a GC pass over any
/// tombstone overflows `Instant + Duration` and panics.
#[tokio::test(start_paused = true)]
#[ignore]
async fn hunt_d1_side_gc_grace_period_max_panics() {
    let mut config = ChitchatConfig::for_test(10_077);
    config.marked_for_deletion_grace_period = Duration::MAX;
    let (_tx, rx) = watch::channel(HashSet::new());
    let mut chitchat = Chitchat::with_chitchat_id_and_seeds(config, rx, Vec::new());
    chitchat.self_node_state().set("k", "v");
    chitchat.self_node_state().delete("k");
    chitchat.gc_keys_marked_for_deletion();
    assert_eq!(chitchat.self_node_state().last_gc_version(), 0);
}

/// Side observation (needs a forged or same-identity datagram, so outside C06's quantifier and
/// formally compatible with C04): a delta naming the receiving node itself is applied to the
/// node's OWN key-values; nothing in `process_delta` / `ClusterState::apply_delta` skips the
/// self member.
#[tokio::test(start_paused = true)]
#[ignore]
async fn hunt_d1_side_delta_about_self_overwrites_own_keys() {
    use crate::delta::DeltaSerializer;
    let mut owner = new_chitchat(10_078);
    owner.self_node_state().set("k", "mine");
    let owner_id = owner.self_chitchat_id().clone();
    let mut serializer = DeltaSerializer::with_mtu(60_000);
    assert!(serializer.try_add_node(owner_id, 0, 1));
    assert!(serializer.try_add_kv(
        "k",
        VersionedValue {
            value: "forged".to_string(),
            version: 2,
            status: DeletionStatus::Set,
        }
    ));
    let msg = ChitchatMessage::Ack {
        delta: serializer.finish(),
    };
    let mut buf = Vec::new();
    msg.serialize(&mut buf);
    let msg = ChitchatMessage::deserialize(&mut &buf[..]).unwrap();
    owner.process_message(msg);
    assert_eq!(
        owner.self_node_state().get("k"),
        Some("mine"),
        "the owner's own key was overwritten by a datagram"
    );
}
