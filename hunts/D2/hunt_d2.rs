//! Bug hunting D2: randomized explorer of replication across 3..4 real `Chitchat` instances
//! (paused clock, every message through the wire format) against an independent model of
//! C01 / C02 / C03.

use std::collections::{BTreeMap, HashSet};
use std::net::SocketAddr;
use std::time::Duration;

use tokio::sync::watch;

use crate::serialize::{Deserializable, Serializable};
use crate::types::DeletionStatus;
use crate::{Chitchat, ChitchatConfig, ChitchatId, ChitchatMessage, FailureDetectorConfig};

// ---------------------------------------------------------------- tiny deterministic rng

struct Rng(u64);

impl Rng {
    fn next(&mut self) -> u64 {
        // splitmix64
        self.0 = self.0.wrapping_add(0x9E37_79B9_7F4A_7C15);
        let mut z = self.0;
        z = (z ^ (z >> 30)).wrapping_mul(0xBF58_476D_1CE4_E5B9);
        z = (z ^ (z >> 27)).wrapping_mul(0x94D0_49BB_1331_11EB);
        z ^ (z >> 31)
    }
    fn below(&mut self, n: usize) -> usize {
        (self.next() % n as u64) as usize
    }
    fn chance(&mut self, num: u64, den: u64) -> bool {
        self.next() % den < num
    }
}

// ---------------------------------------------------------------- model

#[derive(Clone, Copy, Debug, PartialEq, Eq)]
enum Kind {
    Set,
    Deleted,
    Ttl,
}

fn kind_of(status: &DeletionStatus) -> Kind {
    match status {
        DeletionStatus::Set => Kind::Set,
        DeletionStatus::Deleted(_) => Kind::Deleted,
        DeletionStatus::DeleteAfterTtl(_) => Kind::Ttl,
    }
}

#[derive(Clone, Debug)]
struct Write {
    key: String,
    value: String,
    version: u64,
    kind: Kind,
}

struct Msg {
    from: usize,
    to: usize,
    bytes: Vec<u8>,
    /// max version of every copy held by the sender when the message was built.
    sender_mvs: BTreeMap<ChitchatId, u64>,
}

struct DeadMember {
    id: ChitchatId,
    history: Vec<Write>,
    final_mv: u64,
    final_hb: u64,
}

struct Sim {
    dead_members: Vec<DeadMember>,
    tomb_grace: Duration,
    dead_grace: Duration,
    catchups_applied: usize,
    removals: usize,
    live_seen: usize,
    wide_sizes: bool,
    nodes: Vec<Chitchat>,
    ids: Vec<ChitchatId>,
    _seed_txs: Vec<watch::Sender<HashSet<SocketAddr>>>,
    history: Vec<Vec<Write>>,
    pool: Vec<Msg>,
    log: Vec<String>,
    counter: u64,
    k1_filtered: usize,
    resets_seen: usize,
    mid_reset_seen: usize,
}

fn short(v: &str) -> String {
    if v.len() > 12 {
        format!("{}..({})", &v[..8], v.len())
    } else {
        v.to_string()
    }
}

impl Sim {
    fn new(num_nodes: usize, tomb_grace: Duration, dead_grace: Duration) -> Sim {
        let mut nodes = Vec::new();
        let mut ids = Vec::new();
        let mut seed_txs = Vec::new();
        for i in 0..num_nodes {
            let mut config = ChitchatConfig::for_test(10_001 + i as u16);
            config.marked_for_deletion_grace_period = tomb_grace;
            config.failure_detector_config = FailureDetectorConfig {
                dead_node_grace_period: dead_grace,
                ..Default::default()
            };
            ids.push(config.chitchat_id.clone());
            let (tx, rx) = watch::channel(HashSet::new());
            seed_txs.push(tx);
            nodes.push(Chitchat::with_chitchat_id_and_seeds(config, rx, Vec::new()));
        }
        Sim {
            dead_members: Vec::new(),
            tomb_grace,
            dead_grace,
            catchups_applied: 0,
            removals: 0,
            live_seen: 0,
            wide_sizes: false,
            history: vec![Vec::new(); num_nodes],
            nodes,
            ids,
            _seed_txs: seed_txs,
            pool: Vec::new(),
            log: Vec::new(),
            counter: 0,
            k1_filtered: 0,
            resets_seen: 0,
            mid_reset_seen: 0,
        }
    }

    fn owner_write(&mut self, owner: usize, op: usize, key: &str, large: bool) {
        self.counter += 1;
        let value = if large {
            let mut v = format!("L{}-", self.counter);
            let target = if self.wide_sizes {
                let h = self.counter.wrapping_mul(0x9E37_79B9_7F4A_7C15) >> 33;
                20_000 + (h as usize) % 45_100
            } else {
                [22_000usize, 22_000, 31_000, 45_000, 60_000][(self.counter % 5) as usize]
            };
            while v.len() < target {
                v.push('x');
            }
            v
        } else {
            format!("v{}", self.counter)
        };
        let before = self.nodes[owner].self_node_state().max_version();
        let opname;
        {
            let ns = self.nodes[owner].self_node_state();
            match op {
                0 => {
                    ns.set(key, &value);
                    opname = "set";
                }
                1 => {
                    ns.delete(key);
                    opname = "delete";
                }
                2 => {
                    ns.set_with_ttl(key, &value);
                    opname = "set_with_ttl";
                }
                _ => {
                    ns.delete_after_ttl(key);
                    opname = "delete_after_ttl";
                }
            }
        }
        let ns = self.nodes[owner].self_node_state();
        let after = ns.max_version();
        assert!(after == before || after == before + 1);
        if after == before + 1 {
            let vv = ns.get_versioned(key).expect("written key must exist");
            assert_eq!(vv.version, after);
            let w = Write {
                key: key.to_string(),
                value: vv.value.clone(),
                version: after,
                kind: kind_of(&vv.status),
            };
            self.log.push(format!(
                "n{owner}: {opname}({key}, {}) -> v{after} {:?}",
                short(&value),
                w.kind
            ));
            self.history[owner].push(w);
        }
    }

    fn sender_mvs(&self, n: usize) -> BTreeMap<ChitchatId, u64> {
        self.nodes[n]
            .node_states()
            .iter()
            .map(|(id, ns)| (id.clone(), ns.max_version()))
            .collect()
    }

    fn push_msg(&mut self, from: usize, to: usize, msg: &ChitchatMessage) {
        let bytes = msg.serialize_to_vec();
        assert!(
            bytes.len() <= crate::MAX_UDP_DATAGRAM_PAYLOAD_SIZE,
            "datagram too large: {}",
            bytes.len()
        );
        let sender_mvs = self.sender_mvs(from);
        self.pool.push(Msg {
            from,
            to,
            bytes,
            sender_mvs,
        });
    }

    fn initiate(&mut self, from: usize, to: usize) {
        let syn = self.nodes[from].create_syn_message();
        self.log.push(format!("n{from} -> n{to}: SYN created"));
        self.push_msg(from, to, &syn);
    }

    /// True if delivering the message would exercise K1 (already known): a copy in the middle of
    /// a reset (watermark above max version) being fed, without reset, a live key-value at or
    /// below its watermark by a sender whose own copy was below that watermark.
    fn is_k1(&self, msg: &Msg, decoded: &ChitchatMessage) -> bool {
        let delta = match decoded {
            ChitchatMessage::SynAck { delta, .. } => delta,
            ChitchatMessage::Ack { delta } => delta,
            _ => return false,
        };
        for nd in &delta.node_deltas {
            let Some(copy) = self.nodes[msg.to].node_state(&nd.chitchat_id) else {
                continue;
            };
            let (gc, mv) = (copy.last_gc_version(), copy.max_version());
            if gc <= mv {
                continue;
            }
            let sender_mv = msg.sender_mvs.get(&nd.chitchat_id).copied().unwrap_or(0);
            if sender_mv >= gc {
                continue;
            }
            if nd.from_version_excluded > mv {
                continue; // refused
            }
            let compatible = nd.last_gc_version <= gc || nd.last_gc_version <= mv;
            if !compatible {
                continue; // reset or refused
            }
            if nd.key_values.iter().any(|kv| kv.version > mv) {
                return true;
            }
        }
        false
    }

    /// Delivers pool[idx]; `keep` leaves a duplicate in the pool. Returns false if filtered.
    fn deliver(&mut self, idx: usize, keep: bool, filter_k1: bool) -> bool {
        let msg = if keep {
            let m = &self.pool[idx];
            Msg {
                from: m.from,
                to: m.to,
                bytes: m.bytes.clone(),
                sender_mvs: m.sender_mvs.clone(),
            }
        } else {
            self.pool.swap_remove(idx)
        };
        let decoded = ChitchatMessage::deserialize(&mut &msg.bytes[..]).expect("decodes");
        if filter_k1 && self.is_k1(&msg, &decoded) {
            self.k1_filtered += 1;
            self.log
                .push(format!("n{} -> n{}: dropped (K1 filter)", msg.from, msg.to));
            return false;
        }
        let kind = match &decoded {
            ChitchatMessage::Syn { .. } => "SYN".to_string(),
            ChitchatMessage::SynAck { delta, .. } => format!("SYNACK {}", fmt_delta(delta)),
            ChitchatMessage::Ack { delta } => format!("ACK {}", fmt_delta(delta)),
            _ => "other".to_string(),
        };
        let before = self.copies(msg.to);
        let reply = self.nodes[msg.to].process_message(decoded);
        let after = self.copies(msg.to);
        for (id, (gc_a, mv_a)) in &after {
            if let Some((gc_b, mv_b)) = before.get(id) {
                assert!(
                    (gc_a, mv_a) >= (gc_b, mv_b),
                    "copy went backward (gc, mv): {:?} -> {:?}",
                    (gc_b, mv_b),
                    (gc_a, mv_a)
                );
                if gc_a > gc_b && mv_a < mv_b {
                    self.resets_seen += 1;
                }
            }
            if gc_a > mv_a {
                self.mid_reset_seen += 1;
            }
        }
        self.log.push(format!(
            "n{} -> n{}: deliver{} {} ; copies at n{}: {}",
            msg.from,
            msg.to,
            if keep { " (dup kept)" } else { "" },
            kind,
            msg.to,
            self.fmt_copies(msg.to)
        ));
        if let Some(reply) = reply {
            self.push_msg(msg.to, msg.from, &reply);
        }
        true
    }

    fn copies(&self, n: usize) -> BTreeMap<ChitchatId, (u64, u64)> {
        self.nodes[n]
            .node_states()
            .iter()
            .map(|(id, ns)| (id.clone(), (ns.last_gc_version(), ns.max_version())))
            .collect()
    }

    fn fmt_copies(&self, n: usize) -> String {
        let mut out = String::new();
        for (id, ns) in self.nodes[n].node_states() {
            let x = match self.ids.iter().position(|i| i == id) {
                Some(x) => format!("{x}"),
                None => format!("{}g{}(dead)", id.gossip_advertise_addr.port() - 10_001, id.generation_id),
            };
            out.push_str(&format!(
                "[n{x} gc={} mv={} hb={} {{",
                ns.last_gc_version(),
                ns.max_version(),
                ns.heartbeat().0
            ));
            for (k, vv) in ns.key_values_including_deleted() {
                out.push_str(&format!(
                    "{k}@{}{} ",
                    vv.version,
                    match kind_of(&vv.status) {
                        Kind::Set => "",
                        Kind::Deleted => "D",
                        Kind::Ttl => "T",
                    }
                ));
            }
            out.push_str("}] ");
        }
        out
    }

    /// The node in slot `n` crashes and comes back with the next generation id (same address).
    fn restart(&mut self, n: usize) {
        let old_id = self.ids[n].clone();
        let (final_mv, final_hb) = {
            let ns = self.nodes[n].self_node_state();
            (ns.max_version(), ns.heartbeat().0)
        };
        let history = std::mem::take(&mut self.history[n]);
        self.dead_members.push(DeadMember {
            id: old_id.clone(),
            history,
            final_mv,
            final_hb,
        });
        let mut config = ChitchatConfig::for_test(10_001 + n as u16);
        config.chitchat_id.generation_id = old_id.generation_id + 1;
        config.marked_for_deletion_grace_period = self.tomb_grace;
        config.failure_detector_config = FailureDetectorConfig {
            dead_node_grace_period: self.dead_grace,
            ..Default::default()
        };
        self.ids[n] = config.chitchat_id.clone();
        let (tx, rx) = watch::channel(HashSet::new());
        self._seed_txs.push(tx);
        self.nodes[n] = Chitchat::with_chitchat_id_and_seeds(config, rx, Vec::new());
        self.log.push(format!("n{n}: restarted as generation {}", old_id.generation_id + 1));
    }

    /// Honest catch-up: node `r` adopts node `p`'s copy of `id` through the catch-up entry point.
    fn catchup(&mut self, r: usize, p: usize, id: &ChitchatId) {
        if &self.ids[r] == id {
            return;
        }
        let Some(src) = self.nodes[p].node_state(id) else {
            return;
        };
        let kvs: Vec<(String, crate::VersionedValue)> = src
            .key_values_including_deleted()
            .map(|(k, vv)| (k.to_string(), vv.clone()))
            .collect();
        let (mv, gc) = (src.max_version(), src.last_gc_version());
        let before = self.nodes[r]
            .node_state(id)
            .map(|c| (c.last_gc_version(), c.max_version()));
        self.nodes[r].reset_node_state_if_update(id, kvs.into_iter(), mv, gc);
        let after = self.nodes[r]
            .node_state(id)
            .map(|c| (c.last_gc_version(), c.max_version()));
        if before != after {
            self.catchups_applied += 1;
        }
        self.log.push(format!(
            "n{r}: catch-up of {id:?} from n{p}'s copy (gc={gc}, mv={mv}): {before:?} -> {after:?}"
        ));
    }

    fn gc(&mut self, n: usize) {
        self.nodes[n].gc_keys_marked_for_deletion();
        self.log
            .push(format!("n{n}: tombstone GC ; {}", self.fmt_copies(n)));
    }

    fn liveness(&mut self, n: usize) {
        let before = self.nodes[n].node_states().len();
        self.nodes[n].update_nodes_liveness();
        self.removals += before - self.nodes[n].node_states().len();
        self.live_seen += self.nodes[n].live_nodes().count() - 1;
        let dead: Vec<String> = self.nodes[n]
            .dead_nodes()
            .map(|id| format!("{id:?}"))
            .collect();
        let sched: Vec<String> = self.nodes[n]
            .scheduled_for_deletion_nodes()
            .map(|id| format!("{id:?}"))
            .collect();
        self.log.push(format!(
            "n{n}: update_nodes_liveness dead={dead:?} scheduled={sched:?} ; {}",
            self.fmt_copies(n)
        ));
    }

    /// C02 + C03 on every copy of every member.
    fn check_safety(&mut self, check_c02: bool) -> Result<(), String> {
        for n in 0..self.nodes.len() {
            for d in 0..self.dead_members.len() {
                let dm = &self.dead_members[d];
                let Some(copy) = self.nodes[n].node_state(&dm.id) else {
                    continue;
                };
                check_copy(
                    copy,
                    &dm.history,
                    dm.final_mv,
                    dm.final_hb,
                    &format!("{:?}", dm.id),
                    n,
                    check_c02,
                )?;
            }
            for x in 0..self.nodes.len() {
                if n == x {
                    continue;
                }
                let owner_mv = self.nodes[x].self_node_state().max_version();
                let owner_hb = self.nodes[x].self_node_state().heartbeat().0;
                let Some(copy) = self.nodes[n].node_state(&self.ids[x]) else {
                    continue;
                };
                check_copy(
                    copy,
                    &self.history[x],
                    owner_mv,
                    owner_hb,
                    &format!("n{x}"),
                    n,
                    check_c02,
                )?;
            }
        }
        Ok(())
    }

    /// One complete loss-free handshake, initiated by `a` towards `b`.
    fn full_handshake(&mut self, a: usize, b: usize) {
        assert!(self.pool.is_empty());
        self.initiate(a, b);
        while !self.pool.is_empty() {
            self.deliver(0, false, false);
        }
    }

    /// (gc, mv) of every copy on every node.
    fn all_copies(&self) -> Vec<BTreeMap<ChitchatId, (u64, u64)>> {
        (0..self.nodes.len()).map(|n| self.copies(n)).collect()
    }

    fn converged(&self) -> Result<(), String> {
        for x in 0..self.nodes.len() {
            let owner = self.nodes[x].node_state(&self.ids[x]).unwrap();
            let owner_mv = owner.max_version();
            for n in 0..self.nodes.len() {
                match self.nodes[n].node_state(&self.ids[x]) {
                    Some(copy) if copy.max_version() == owner_mv => {}
                    Some(copy) => {
                        return Err(format!(
                            "copy of n{x} at n{n} is at (gc={}, mv={}), owner at mv={owner_mv}",
                            copy.last_gc_version(),
                            copy.max_version()
                        ));
                    }
                    None => return Err(format!("n{n} has no copy of n{x}")),
                }
            }
        }
        Ok(())
    }

    fn dump(&self, seed: u64, err: &str) -> String {
        let mut out = format!("seed {seed}: {err}\n--- trace ---\n");
        let start = self.log.len().saturating_sub(400);
        for line in &self.log[start..] {
            out.push_str(line);
            out.push('\n');
        }
        out
    }
}

/// C03 (and optionally C02) for one copy of one member.
fn check_copy(
    copy: &crate::NodeState,
    history: &[Write],
    owner_mv: u64,
    owner_hb: u64,
    x: &str,
    n: usize,
    check_c02: bool,
) -> Result<(), String> {
    let (gc, mv) = (copy.last_gc_version(), copy.max_version());
    // C03
    if mv > owner_mv {
        return Err(format!(
            "C03: copy of {x} at n{n} has max version {mv} > owner's {owner_mv}"
        ));
    }
    if copy.heartbeat().0 > owner_hb {
        return Err(format!(
            "C03: copy of {x} at n{n} has heartbeat {} > owner's {owner_hb}",
            copy.heartbeat().0
        ));
    }
    for (k, vv) in copy.key_values_including_deleted() {
        let found = history.iter().any(|w| {
            w.key == k
                && w.version == vv.version
                && w.value == vv.value
                && w.kind == kind_of(&vv.status)
        });
        if !found {
            return Err(format!(
                "C03: copy of {x} at n{n} holds {k}@{} {:?} value {} never written",
                vv.version,
                kind_of(&vv.status),
                short(&vv.value)
            ));
        }
    }
    if !check_c02 {
        return Ok(());
    }
    // C02
    let mut latest: BTreeMap<&str, &Write> = BTreeMap::new();
    for w in history {
        latest.insert(w.key.as_str(), w);
    }
    for (k, w) in latest {
        if w.version > mv {
            continue;
        }
        match copy.get_versioned(k) {
            Some(vv) => {
                if vv.version != w.version || vv.value != w.value || kind_of(&vv.status) != w.kind
                {
                    return Err(format!(
                        "C02: copy of {x} at n{n} (gc={gc}, mv={mv}) holds {k}@{} {:?} but the                          owner's last write is {k}@{} {:?}",
                        vv.version,
                        kind_of(&vv.status),
                        w.version,
                        w.kind
                    ));
                }
            }
            None => {
                let may_be_absent = w.kind != Kind::Set && w.version <= gc;
                if !may_be_absent {
                    return Err(format!(
                        "C02: copy of {x} at n{n} (gc={gc}, mv={mv}) lacks {k}@{} {:?}",
                        w.version, w.kind
                    ));
                }
            }
        }
    }
    Ok(())
}

fn fmt_delta(delta: &crate::delta::Delta) -> String {
    let mut out = String::new();
    for nd in &delta.node_deltas {
        out.push_str(&format!(
            "<{}: from={} gc={} mv={} kvs=[",
            nd.chitchat_id.node_id, nd.from_version_excluded, nd.last_gc_version, nd.max_version
        ));
        for kv in &nd.key_values {
            out.push_str(&format!("{}@{}:{:?} ", kv.key, kv.version, kv.status));
        }
        out.push_str("]> ");
    }
    out
}

const KEYS: [&str; 8] = ["a", "b", "c", "d", "e", "f", "g", "h"];

/// Mode A: nobody ever runs the failure detector (no member is ever dead or removed).
/// Mode B: the failure detector runs at random moments, members get removed and re-created.
async fn run_one(seed: u64, with_liveness: bool) -> Result<(usize, usize, usize), String> {
    let mut rng = Rng(seed);
    let num_nodes = 2 + rng.below(4);
    let tomb_grace = Duration::from_secs([0u64, 1, 100, 100][rng.below(4)]);
    let num_keys = [2usize, 4, 8][rng.below(3)];
    let dead_grace = Duration::from_secs(if with_liveness { 300 } else { 1_000_000 });
    let mut sim = Sim::new(num_nodes, tomb_grace, dead_grace);
    sim.wide_sizes = std::env::var("HUNT_WIDE").is_ok();
    let num_steps = 60 + rng.below(if with_liveness { 700 } else { 300 });
    let large_values = rng.chance(1, 2);
    let filter_k1 = std::env::var("HUNT_NO_K1_FILTER").is_err();
    // Per-run weights.
    let w_write = 5 + rng.below(25);
    let w_init = 10 + rng.below(20);
    let w_deliver = 20 + rng.below(30);
    let w_lose = rng.below(8);
    let w_gc = 2 + rng.below(15);
    let w_clock = 2 + rng.below(12);
    let w_live = if with_liveness { 1 + rng.below(8) } else { 0 };
    let w_part = 1 + rng.below(5);
    let w_restart = if with_liveness { rng.below(3) } else { 0 };
    let w_catchup = rng.below(6);
    let total = w_write + w_init + w_deliver + w_lose + w_gc + w_clock + w_live + w_part
        + w_restart + w_catchup;
    // Nodes currently cut off from everybody (they neither send nor receive).
    let mut isolated: Vec<bool> = vec![false; num_nodes];
    // A late joiner: node num_nodes-1 may stay silent for the first part of the run.
    let late_join_at = if rng.chance(1, 2) { rng.below(num_steps) } else { 0 };
    isolated[num_nodes - 1] = late_join_at > 0;
    for step in 0..num_steps {
        if step == late_join_at && late_join_at > 0 {
            isolated[num_nodes - 1] = false;
            sim.log.push(format!("n{} joins", num_nodes - 1));
        }
        let mut choice = rng.below(total);
        if choice < w_write {
            let owner = if rng.chance(2, 3) { 0 } else { rng.below(num_nodes) };
            let op = [0, 0, 0, 1, 1, 2, 3][rng.below(7)];
            let key = KEYS[rng.below(num_keys)];
            let large = large_values && rng.chance(1, 2);
            sim.owner_write(owner, op, key, large);
            choice = usize::MAX;
        } else {
            choice -= w_write;
        }
        if choice < w_init {
            let a = rng.below(num_nodes);
            let mut b = rng.below(num_nodes);
            if a == b {
                b = (b + 1) % num_nodes;
            }
            if !isolated[a] && !(late_join_at > 0 && step < late_join_at && b == num_nodes - 1) {
                sim.initiate(a, b);
            }
            choice = usize::MAX;
        } else if choice != usize::MAX {
            choice -= w_init;
        }
        if choice < w_deliver {
            if !sim.pool.is_empty() {
                let idx = rng.below(sim.pool.len());
                if isolated[sim.pool[idx].to] {
                    // stays in flight
                } else {
                    let keep = rng.chance(1, 6);
                    sim.deliver(idx, keep, filter_k1);
                }
            }
            choice = usize::MAX;
        } else if choice != usize::MAX {
            choice -= w_deliver;
        }
        if choice < w_lose {
            if !sim.pool.is_empty() {
                let idx = rng.below(sim.pool.len());
                let m = sim.pool.swap_remove(idx);
                sim.log.push(format!("n{} -> n{}: lost", m.from, m.to));
            }
            choice = usize::MAX;
        } else if choice != usize::MAX {
            choice -= w_lose;
        }
        if choice < w_gc {
            let n = rng.below(num_nodes);
            sim.gc(n);
            choice = usize::MAX;
        } else if choice != usize::MAX {
            choice -= w_gc;
        }
        if choice < w_clock {
            let secs = if with_liveness {
                [1u64, 1, 1, 1, 1, 2, 2, 2, 5, 5, 30, 101, 160, 301][rng.below(14)]
            } else {
                [1u64, 1, 2, 5, 30, 60, 101, 101, 160][rng.below(9)]
            };
            tokio::time::advance(Duration::from_secs(secs)).await;
            sim.log.push(format!("clock +{secs}s"));
            choice = usize::MAX;
        } else if choice != usize::MAX {
            choice -= w_clock;
        }
        if choice < w_live {
            let n = rng.below(num_nodes);
            sim.liveness(n);
            choice = usize::MAX;
        } else if choice != usize::MAX {
            choice -= w_live;
        }
        if choice < w_part {
            let n = rng.below(num_nodes);
            if !(late_join_at > 0 && step < late_join_at && n == num_nodes - 1) {
                isolated[n] = !isolated[n];
                sim.log.push(format!("n{n}: isolated={}", isolated[n]));
            }
            choice = usize::MAX;
        } else if choice != usize::MAX {
            choice -= w_part;
        }
        if choice < w_restart {
            let n = rng.below(num_nodes);
            sim.restart(n);
            choice = usize::MAX;
        } else if choice != usize::MAX {
            choice -= w_restart;
        }
        if choice < w_catchup {
            let r = rng.below(num_nodes);
            let p = rng.below(num_nodes);
            let known: Vec<ChitchatId> = sim.nodes[p].node_states().keys().cloned().collect();
            if r != p && !known.is_empty() {
                let id = known[rng.below(known.len())].clone();
                sim.catchup(r, p, &id);
            }
        }
        sim.check_safety(filter_k1).map_err(|e| sim.dump(seed, &e))?;
        if sim.pool.len() > 40 {
            sim.pool.remove(0);
        }
    }

    if with_liveness {
        if std::env::var("HUNT_STATS").is_ok() {
            println!(
                "seed {seed}: removals {} live-observations {} catchups {} dead members {}",
                sim.removals,
                sim.live_seen,
                sim.catchups_applied,
                sim.dead_members.len()
            );
        }
        // Eventual convergence of the live members once the network is healed: one round per
        // second of all-pairs loss-free handshakes, failure detector and GC running on every
        // node. Dead incarnations may delay it (K2) for at most the dead-node grace period.
        sim.pool.clear();
        sim.log.push("=== healed phase (mode B) ===".to_string());
        let mut rounds = 0;
        loop {
            rounds += 1;
            for a in 0..num_nodes {
                for b in 0..num_nodes {
                    if a != b {
                        sim.full_handshake(a, b);
                    }
                }
            }
            for n in 0..num_nodes {
                sim.nodes[n].gc_keys_marked_for_deletion();
                sim.nodes[n].update_nodes_liveness();
            }
            sim.check_safety(false).map_err(|e| sim.dump(seed, &e))?;
            if sim.converged().is_ok() && rounds > 3 {
                break;
            }
            if rounds > 700 {
                let err = sim.converged().unwrap_err();
                return Err(sim.dump(
                    seed,
                    &format!("C01 (mode B): no convergence after 700 healed rounds: {err}"),
                ));
            }
            tokio::time::advance(Duration::from_secs(1)).await;
        }
        if std::env::var("HUNT_STATS").is_ok() {
            println!("seed {seed}: healed after {rounds} rounds");
        }
        return Ok((sim.k1_filtered, sim.resets_seen, sim.mid_reset_seen));
    }

    // C01: writes stop, no more loss. In-flight datagrams may still arrive (finite prefix).
    while !sim.pool.is_empty() {
        let idx = rng.below(sim.pool.len());
        sim.deliver(idx, false, filter_k1);
    }
    sim.log.push("=== fair phase ===".to_string());
    let mut rounds = 0;
    loop {
        if sim.converged().is_ok() {
            break;
        }
        rounds += 1;
        if rounds > 60 {
            let err = sim.converged().unwrap_err();
            return Err(sim.dump(seed, &format!("C01: no convergence after 60 rounds: {err}")));
        }
        for a in 0..num_nodes {
            for b in 0..num_nodes {
                if a == b {
                    continue;
                }
                let before = sim.all_copies();
                // Is there newer deliverable data on either side?
                let mut newer = false;
                for x in 0..num_nodes {
                    let mva = before[a].get(&sim.ids[x]).map(|c| c.1).unwrap_or(0);
                    let mvb = before[b].get(&sim.ids[x]).map(|c| c.1).unwrap_or(0);
                    if mva != mvb {
                        newer = true;
                    }
                }
                sim.full_handshake(a, b);
                let after = sim.all_copies();
                if newer {
                    let mut advanced = false;
                    for n in [a, b] {
                        for (id, c_after) in &after[n] {
                            let c_before = before[n].get(id).copied().unwrap_or((0, 0));
                            if *c_after > c_before {
                                advanced = true;
                            }
                        }
                    }
                    if !advanced {
                        return Err(sim.dump(
                            seed,
                            &format!(
                                "C01: complete handshake n{a}<->n{b} with newer data advanced \
                                 no copy"
                            ),
                        ));
                    }
                }
                sim.check_safety(false).map_err(|e| sim.dump(seed, &e))?;
            }
        }
    }
    Ok((sim.k1_filtered, sim.resets_seen, sim.mid_reset_seen))
}

#[tokio::test(start_paused = true)]
async fn explore_mode_a() {
    let base: u64 = std::env::var("HUNT_SEED")
        .ok()
        .and_then(|s| s.parse().ok())
        .unwrap_or(0);
    let runs: u64 = std::env::var("HUNT_RUNS")
        .ok()
        .and_then(|s| s.parse().ok())
        .unwrap_or(150);
    let (mut k1, mut resets, mut mid) = (0, 0, 0);
    for seed in base..base + runs {
        match run_one(seed, false).await {
            Ok((a, b, c)) => {
                k1 += a;
                resets += b;
                mid += c;
            }
            Err(report) => panic!("{report}"),
        }
    }
    println!("mode A: {runs} runs, K1-filtered {k1}, resets {resets}, mid-reset observations {mid}");
}

#[tokio::test(start_paused = true)]
async fn explore_mode_b() {
    let base: u64 = std::env::var("HUNT_SEED")
        .ok()
        .and_then(|s| s.parse().ok())
        .unwrap_or(0);
    let runs: u64 = std::env::var("HUNT_RUNS")
        .ok()
        .and_then(|s| s.parse().ok())
        .unwrap_or(150);
    let (mut k1, mut resets, mut mid) = (0, 0, 0);
    for seed in base..base + runs {
        match run_one(seed, true).await {
            Ok((a, b, c)) => {
                k1 += a;
                resets += b;
                mid += c;
            }
            Err(report) => panic!("{report}"),
        }
    }
    println!("mode B: {runs} runs, K1-filtered {k1}, resets {resets}, mid-reset observations {mid}");
}

/// OBSERVATION, outside the quantifier of C02 (needs a panicking user listener, which is not
/// one of the faults C02 quantifies over) -- kept `#[ignore]`d so that it does not count as a
/// finding. `reset_node_state_if_update` is not atomic with respect to a panic of a key
/// listener: the copy's max version has already moved to the supplied key-value's version while
/// the keys that the supplied state no longer holds are still there and the watermark is
/// unchanged. tokio's mutex does not poison, so the instance goes on being used.
#[tokio::test(start_paused = true)]
#[ignore]
async fn obs_catchup_torn_by_panicking_listener() {
    let mut sim = Sim::new(2, Duration::from_secs(0), Duration::from_secs(1_000_000));
    // n0 writes k (v1) and j (v2); n1 replicates both.
    sim.owner_write(0, 0, "k", false);
    sim.owner_write(0, 0, "j", false);
    sim.full_handshake(1, 0);
    // n0 deletes k (v3), garbage collects the tombstone at once (grace 0), writes a (v4).
    sim.owner_write(0, 1, "k", false);
    sim.gc(0);
    sim.owner_write(0, 0, "a", false);
    let id0 = sim.ids[0].clone();
    let (kvs, mv, gc) = {
        let ns = sim.nodes[0].node_state(&id0).unwrap();
        let kvs: Vec<(String, crate::VersionedValue)> = ns
            .key_values_including_deleted()
            .map(|(k, vv)| (k.to_string(), vv.clone()))
            .collect();
        (kvs, ns.max_version(), ns.last_gc_version())
    };
    assert_eq!((gc, mv), (3, 4));
    // The application on n1 listens to "a" and its callback panics.
    sim.nodes[1]
        .subscribe_event("a", |_| panic!("user callback panics"))
        .forever();
    let res = std::panic::catch_unwind(std::panic::AssertUnwindSafe(|| {
        sim.nodes[1].reset_node_state_if_update(&id0, kvs.into_iter(), mv, gc);
    }));
    assert!(res.is_err());
    let copy = sim.nodes[1].node_state(&id0).unwrap();
    // The copy says it has seen everything up to v4 ...
    assert_eq!(copy.max_version(), 4);
    // ... and still shows k, deleted at v3.
    assert_eq!(
        copy.get("k"),
        None,
        "copy of n0 at n1 is at (gc={}, mv={}) and still shows k, deleted by n0 at v3",
        copy.last_gc_version(),
        copy.max_version()
    );
}
