//! Bug hunting D3: membership life cycle explorer (C10..C13).
//!
//! Real `Chitchat` instances, paused tokio clock, every message goes through the wire format,
//! with an independent model of what C10..C13 predict.
//!
//! Result: no violation found on the unmodified library; all tests of this file PASS. They are
//! kept as a record of what was explored (see NOTES.md). Knobs: HUNT_SEEDS, HUNT_BASE, HUNT_STEPS,
//! HUNT_BULK (values that fill datagrams), HUNT_MULTI (restarts into another cluster),
//! HUNT_FD_CASES.

use std::collections::{BTreeMap, BTreeSet, HashMap, HashSet};
use std::net::SocketAddr;
use std::time::Duration;

use tokio::sync::watch;
use tokio::time::Instant;

use crate::serialize::{Deserializable, Serializable};
use crate::{
    Chitchat, ChitchatConfig, ChitchatId, ChitchatMessage, FailureDetectorConfig, NodeState,
    Version,
};

use std::sync::atomic::{AtomicU64, Ordering::Relaxed};
static ST_LIVE: AtomicU64 = AtomicU64::new(0);
static ST_REMOVED: AtomicU64 = AtomicU64::new(0);
static ST_RECREATED: AtomicU64 = AtomicU64::new(0);
static ST_REFUSED: AtomicU64 = AtomicU64::new(0);
static ST_STEADY: AtomicU64 = AtomicU64::new(0);
static ST_QUAR: AtomicU64 = AtomicU64::new(0);
static ST_C10: AtomicU64 = AtomicU64::new(0);
static ST_PUB: AtomicU64 = AtomicU64::new(0);
static MULTI: AtomicU64 = AtomicU64::new(0);
static BULK: AtomicU64 = AtomicU64::new(0);
static ST_TRUNC: AtomicU64 = AtomicU64::new(0);

struct Rng(u64);
impl Rng {
    fn next(&mut self) -> u64 {
        self.0 = self.0.wrapping_add(0x9E3779B97F4A7C15);
        let mut z = self.0;
        z = (z ^ (z >> 30)).wrapping_mul(0xBF58476D1CE4E5B9);
        z = (z ^ (z >> 27)).wrapping_mul(0x94D049BB133111EB);
        z ^ (z >> 31)
    }
    fn below(&mut self, n: usize) -> usize {
        (self.next() % n as u64) as usize
    }
    fn chance(&mut self, num: u64, den: u64) -> bool {
        self.next() % den < num
    }
}

#[derive(Clone, Debug)]
struct Params {
    num_nodes: usize,
    phi: f64,
    window: usize,
    max_interval: Duration,
    initial_interval: Duration,
    grace: Duration,
    kv_grace: Duration,
    predicate: bool,
}

#[derive(Default, Debug, Clone)]
struct MemberModel {
    /// Highest heartbeat value observed in a digest.
    max_hb: Option<u64>,
    /// Times of strictly higher (> 0) observations since (re)creation.
    fresh: Vec<Instant>,
    /// Smallest gap between two consecutive fresh observations (<= max_interval).
    min_gap: Option<Duration>,
    dead_since: Option<Instant>,
}

#[derive(Default)]
struct ObserverModel {
    known: HashMap<ChitchatId, MemberModel>,
    removed: HashMap<ChitchatId, u64>,
    prev_eval_live: Option<HashMap<ChitchatId, Version>>,
}

struct Slot {
    addr: SocketAddr,
    generation: u64,
    node: Option<Chitchat>,
    model: ObserverModel,
    rx: Option<watch::Receiver<BTreeMap<ChitchatId, NodeState>>>,
    cluster: String,
}

struct Sim {
    p: Params,
    slots: Vec<Slot>,
    in_flight: Vec<(usize, Vec<u8>, usize)>,
    trace: Vec<String>,
    start: Instant,
    _seed_tx: Vec<watch::Sender<HashSet<SocketAddr>>>,
}

fn predicate(node_state: &NodeState) -> bool {
    node_state.get("ready").is_some()
}

impl Sim {
    fn id_of(&self, slot: usize) -> ChitchatId {
        ChitchatId::new(
            format!("n{slot}"),
            self.slots[slot].generation,
            self.slots[slot].addr,
        )
    }

    fn log(&mut self, line: String) {
        let t = self.start.elapsed();
        self.trace.push(format!("[{:>9.3}] {line}", t.as_secs_f64()));
    }

    fn fail(&self, msg: String) -> ! {
        let n = self.trace.len();
        let tail = self.trace[n.saturating_sub(60)..].join("\n");
        panic!("VIOLATION: {msg}\nparams: {:?}\ntrace tail:\n{tail}", self.p);
    }

    fn boot(&mut self, slot: usize) {
        let id = self.id_of(slot);
        let config = ChitchatConfig {
            chitchat_id: id.clone(),
            cluster_id: self.slots[slot].cluster.clone(),
            gossip_interval: Duration::from_millis(100),
            listen_addr: id.gossip_advertise_addr,
            seed_nodes: Vec::new(),
            failure_detector_config: FailureDetectorConfig {
                phi_threshold: self.p.phi,
                sampling_window_size: self.p.window,
                max_interval: self.p.max_interval,
                initial_interval: self.p.initial_interval,
                dead_node_grace_period: self.p.grace,
            },
            marked_for_deletion_grace_period: self.p.kv_grace,
            catchup_callback: None,
            extra_liveness_predicate: if self.p.predicate {
                Some(Box::new(predicate))
            } else {
                None
            },
        };
        let (tx, rx) = watch::channel(HashSet::new());
        self._seed_tx.push(tx);
        let node = Chitchat::with_chitchat_id_and_seeds(config, rx, vec![]);
        self.slots[slot].rx = Some(node.live_nodes_watcher());
        self.slots[slot].node = Some(node);
        self.slots[slot].model = ObserverModel::default();
    }

    fn mentioned(msg: &ChitchatMessage) -> BTreeSet<ChitchatId> {
        let mut ids = BTreeSet::new();
        match msg {
            ChitchatMessage::Syn { digest, .. } => {
                ids.extend(digest.node_digests.keys().cloned());
            }
            ChitchatMessage::SynAck { digest, delta } => {
                ids.extend(digest.node_digests.keys().cloned());
                ids.extend(delta.node_deltas.iter().map(|nd| nd.chitchat_id.clone()));
            }
            ChitchatMessage::Ack { delta } => {
                ids.extend(delta.node_deltas.iter().map(|nd| nd.chitchat_id.clone()));
            }
            _ => {}
        }
        ids
    }

    /// C12: quarantine check on every message a node sends.
    fn check_sent(&self, slot: usize, msg: &ChitchatMessage) {
        let now = Instant::now();
        let self_id = self.id_of(slot);
        let half = self.p.grace / 2;
        if self.slots[slot].model.known.values().any(|m| {
            m.dead_since
                .map(|t| now.duration_since(t) > half + Duration::from_millis(20))
                .unwrap_or(false)
        }) {
            ST_QUAR.fetch_add(1, Relaxed);
        }
        for id in Self::mentioned(msg) {
            if id == self_id {
                continue;
            }
            if let Some(m) = self.slots[slot].model.known.get(&id) {
                if let Some(t) = m.dead_since {
                    if now.duration_since(t) > half + Duration::from_millis(20) {
                        self.fail(format!(
                            "C12 quarantine: n{slot} mentions {id:?}, dead for {:?} > grace/2 \
                             {half:?}, in {msg:?}",
                            now.duration_since(t)
                        ));
                    }
                }
            }
        }
    }

    fn wire(msg: &ChitchatMessage) -> Vec<u8> {
        let bytes = msg.serialize_to_vec();
        assert_eq!(bytes.len(), msg.serialized_len());
        assert!(bytes.len() <= crate::MAX_UDP_DATAGRAM_PAYLOAD_SIZE);
        if bytes.len() > 60_000 {
            ST_TRUNC.fetch_add(1, Relaxed);
        }
        bytes
    }

    /// Model update for a digest about to be processed by `slot`.
    fn observe_digest(&mut self, slot: usize, msg: &ChitchatMessage) {
        let now = Instant::now();
        let self_id = self.id_of(slot);
        let digest = match msg {
            ChitchatMessage::Syn { cluster_id, digest } => {
                if *cluster_id != self.slots[slot].cluster {
                    return;
                }
                digest
            }
            ChitchatMessage::SynAck { digest, .. } => digest,
            _ => return,
        };
        let max_interval = self.p.max_interval;
        let model = &mut self.slots[slot].model;
        for (id, nd) in &digest.node_digests {
            if *id == self_id {
                continue;
            }
            let hb = nd.heartbeat.0;
            if !model.known.contains_key(id) {
                if let Some(removed_hb) = model.removed.get(id) {
                    if hb <= *removed_hb {
                        ST_REFUSED.fetch_add(1, Relaxed);
                        continue;
                    }
                    ST_RECREATED.fetch_add(1, Relaxed);
                    model.removed.remove(id);
                }
                model.known.insert(id.clone(), MemberModel::default());
            }
            let m = model.known.get_mut(id).unwrap();
            let fresh = match m.max_hb {
                None => true,
                Some(prev) => hb > prev,
            };
            if fresh {
                m.max_hb = Some(hb);
                if hb > 0 {
                    if let Some(last) = m.fresh.last() {
                        let gap = now.duration_since(*last);
                        if gap <= max_interval {
                            m.min_gap = Some(m.min_gap.map_or(gap, |g| g.min(gap)));
                        }
                    }
                    m.fresh.push(now);
                }
            }
        }
    }

    fn check_sets(&self, slot: usize, after_eval: bool) {
        let node = self.slots[slot].node.as_ref().unwrap();
        let self_id = self.id_of(slot);
        let live: HashSet<ChitchatId> = node.live_nodes().cloned().collect();
        let dead: HashSet<ChitchatId> = node.dead_nodes().cloned().collect();
        if !live.contains(&self_id) || dead.contains(&self_id) {
            self.fail(format!("C12: n{slot} self not live / dead"));
        }
        if !node.node_states().contains_key(&self_id) {
            self.fail(format!("C12: n{slot} self removed"));
        }
        if let Some(x) = live.intersection(&dead).next() {
            self.fail(format!("C12: n{slot} has {x:?} both live and dead"));
        }
        let known_lib: BTreeSet<ChitchatId> = node
            .node_states()
            .keys()
            .filter(|id| **id != self_id)
            .cloned()
            .collect();
        let known_model: BTreeSet<ChitchatId> =
            self.slots[slot].model.known.keys().cloned().collect();
        if known_lib != known_model {
            self.fail(format!(
                "C12 membership: n{slot} knows {known_lib:?}, model predicts {known_model:?} \
                 (removed memory: {:?})",
                self.slots[slot].model.removed
            ));
        }
        if after_eval {
            for id in &known_lib {
                let n = live.contains(id) as u8 + dead.contains(id) as u8;
                if n != 1 {
                    self.fail(format!(
                        "C12: after evaluation n{slot} member {id:?} is in {n} sets"
                    ));
                }
            }
        }
        // Fewer than two fresh observations: never live.
        for id in &live {
            if *id == self_id {
                continue;
            }
            let Some(m) = self.slots[slot].model.known.get(id) else {
                self.fail(format!("n{slot}: live member {id:?} unknown to the model"));
            };
            if m.fresh.len() < 2 {
                self.fail(format!(
                    "C10/C11: n{slot} reports {id:?} live with {} fresh observation(s)",
                    m.fresh.len()
                ));
            }
        }
    }

    fn deliver(&mut self, to: usize, bytes: &[u8], from: usize) -> Option<ChitchatMessage> {
        if self.slots[to].node.is_none() {
            return None;
        }
        let mut buf = bytes;
        let msg = ChitchatMessage::deserialize(&mut buf).expect("honest message must decode");
        self.observe_digest(to, &msg);
        let kind = match &msg {
            ChitchatMessage::Syn { .. } => "SYN",
            ChitchatMessage::SynAck { .. } => "SYNACK",
            ChitchatMessage::Ack { .. } => "ACK",
            _ => "OTHER",
        };
        self.log(format!(
            "deliver {kind} n{from}->n{to} mentions {:?}",
            Self::mentioned(&msg)
        ));
        let reply = self.slots[to].node.as_mut().unwrap().process_message(msg);
        self.check_sets(to, false);
        if let Some(reply) = &reply {
            self.check_sent(to, reply);
        }
        reply
    }

    fn evaluate(&mut self, slot: usize) {
        if self.slots[slot].node.is_none() {
            return;
        }
        let now = Instant::now();
        let self_id = self.id_of(slot);
        {
            let node = self.slots[slot].node.as_mut().unwrap();
            node.update_self_heartbeat();
            node.gc_keys_marked_for_deletion();
            node.update_nodes_liveness();
        }
        let node = self.slots[slot].node.as_ref().unwrap();
        let live: HashSet<ChitchatId> = node.live_nodes().cloned().collect();
        let dead: HashSet<ChitchatId> = node.dead_nodes().cloned().collect();
        let known_lib: BTreeSet<ChitchatId> = node.node_states().keys().cloned().collect();
        self.log(format!(
            "eval n{slot}: live={:?} dead={:?}",
            live.iter().collect::<BTreeSet<_>>(),
            dead.iter().collect::<BTreeSet<_>>()
        ));

        // Model: removal after the full grace period.
        let grace = self.p.grace;
        let deadline = Duration::from_secs_f64(
            self.p.phi
                * self
                    .p
                    .max_interval
                    .max(self.p.initial_interval)
                    .as_secs_f64(),
        );
        let ids: Vec<ChitchatId> = self.slots[slot].model.known.keys().cloned().collect();
        for id in ids {
            let m = self.slots[slot].model.known.get(&id).unwrap().clone();
            let is_live = live.contains(&id);
            let is_dead = dead.contains(&id);
            // C10 deadline.
            let silent_for = m.fresh.last().map(|t| now.duration_since(*t));
            if is_live {
                ST_LIVE.fetch_add(1, Relaxed);
            }
            if let Some(silent_for) = silent_for {
                if silent_for > deadline + Duration::from_millis(1) && m.dead_since.is_none() {
                    ST_C10.fetch_add(1, Relaxed);
                }
            }
            if is_live {
                if let Some(silent_for) = silent_for {
                    if silent_for > deadline + Duration::from_millis(1) {
                        self.fail(format!(
                            "C10: n{slot} still reports {id:?} live, silent for {silent_for:?} > \
                             {deadline:?}"
                        ));
                    }
                }
            }
            // C11 steady heartbeats.
            if m.fresh.len() >= 3 {
                let k = m.fresh.len();
                let last_gap = m.fresh[k - 1].duration_since(m.fresh[k - 2]);
                let e = now.duration_since(m.fresh[k - 1]);
                if last_gap <= self.p.max_interval && e <= self.p.max_interval {
                    if let Some(a) = m.min_gap {
                        let a = a.min(self.p.initial_interval).as_secs_f64();
                        if a > 0.0 && e.as_secs_f64() / a <= self.p.phi * 0.999 {
                            ST_STEADY.fetch_add(1, Relaxed);
                        }
                        if a > 0.0 && e.as_secs_f64() / a <= self.p.phi * 0.999 && !is_live {
                            self.fail(format!(
                                "C11 steady: n{slot} reports {id:?} not live: elapsed {e:?}, min \
                                 gap {:?}, fresh obs {}",
                                m.min_gap, k
                            ));
                        }
                    }
                }
            }
            let still_known = known_lib.contains(&id);
            if let Some(t) = m.dead_since {
                if now.duration_since(t) >= grace && !is_live {
                    // must be removed now
                    if still_known {
                        self.fail(format!(
                            "C12 removal: n{slot} keeps {id:?} dead since {:?} >= grace",
                            now.duration_since(t)
                        ));
                    }
                }
            }
            if !still_known {
                // removed
                let dead_for = m.dead_since.map(|t| now.duration_since(t));
                if dead_for.is_none() || dead_for.unwrap() < grace {
                    self.fail(format!(
                        "C12 removal: n{slot} removed {id:?} after only {dead_for:?}"
                    ));
                }
                ST_REMOVED.fetch_add(1, Relaxed);
                self.slots[slot].model.known.remove(&id);
                self.slots[slot]
                    .model
                    .removed
                    .insert(id.clone(), m.max_hb.unwrap_or(0));
                continue;
            }
            let mm = self.slots[slot].model.known.get_mut(&id).unwrap();
            if is_dead {
                if mm.dead_since.is_none() {
                    mm.dead_since = Some(now);
                }
            } else {
                mm.dead_since = None;
            }
        }
        self.check_sets(slot, true);

        // C13.
        let node = self.slots[slot].node.as_ref().unwrap();
        let expected: BTreeMap<ChitchatId, Version> = live
            .iter()
            .filter_map(|id| {
                let ns = node.node_state(id)?;
                if self.p.predicate && !predicate(ns) {
                    return None;
                }
                Some((id.clone(), ns.max_version()))
            })
            .collect();
        let cur_live: HashMap<ChitchatId, Version> = live
            .iter()
            .map(|id| (id.clone(), node.node_state(id).unwrap().max_version()))
            .collect();
        let rx = self.slots[slot].rx.as_mut().unwrap();
        let changed = rx.has_changed().unwrap();
        let got: BTreeMap<ChitchatId, Version> = rx
            .borrow_and_update()
            .iter()
            .map(|(id, ns)| (id.clone(), ns.max_version()))
            .collect();
        if got != expected {
            self.fail(format!(
                "C13: n{slot} watch holds {got:?}, expected {expected:?}"
            ));
        }
        if let Some(prev) = &self.slots[slot].model.prev_eval_live {
            if *prev != cur_live {
                ST_PUB.fetch_add(1, Relaxed);
            }
            if *prev != cur_live && !changed {
                self.fail(format!(
                    "C13: n{slot} live set/max versions changed {prev:?} -> {cur_live:?} but \
                     nothing was published"
                ));
            }
        }
        self.slots[slot].model.prev_eval_live = Some(cur_live);
        let _ = self_id;
    }

    fn send_syn(&mut self, from: usize) -> Option<Vec<u8>> {
        let node = self.slots[from].node.as_ref()?;
        let syn = node.create_syn_message();
        self.check_sent(from, &syn);
        Some(Self::wire(&syn))
    }

    /// Full or partial handshake, each leg may be dropped, delayed (queued) or duplicated.
    fn handshake(&mut self, rng: &mut Rng, a: usize, b: usize) {
        let Some(syn) = self.send_syn(a) else { return };
        self.log(format!("handshake n{a}->n{b}"));
        let mut cur = syn;
        let mut from = a;
        let mut to = b;
        loop {
            match rng.below(12) {
                0 => {
                    self.log("  (leg dropped)".to_string());
                    return;
                }
                1 => {
                    self.log("  (leg delayed)".to_string());
                    self.in_flight.push((to, cur, from));
                    return;
                }
                2 => {
                    self.log("  (leg duplicated, copy delayed)".to_string());
                    self.in_flight.push((to, cur.clone(), from));
                }
                _ => {}
            }
            let Some(reply) = self.deliver(to, &cur, from) else {
                return;
            };
            cur = Self::wire(&reply);
            std::mem::swap(&mut from, &mut to);
        }
    }

    fn deliver_delayed(&mut self, rng: &mut Rng) {
        if self.in_flight.is_empty() {
            return;
        }
        let k = rng.below(self.in_flight.len());
        let (to, bytes, from) = self.in_flight.swap_remove(k);
        self.log(format!("late datagram n{from}->n{to}"));
        let mut cur = bytes;
        let mut from = from;
        let mut to = to;
        loop {
            let Some(reply) = self.deliver(to, &cur, from) else {
                return;
            };
            if rng.chance(1, 6) {
                return;
            }
            cur = Self::wire(&reply);
            std::mem::swap(&mut from, &mut to);
        }
    }

    fn catchup(&mut self, rng: &mut Rng, to: usize, source: usize) {
        if self.slots[to].node.is_none() || self.slots[source].node.is_none() {
            return;
        }
        let src = self.slots[source].node.as_ref().unwrap();
        let ids: Vec<ChitchatId> = src.node_states().keys().cloned().collect();
        let id = ids[rng.below(ids.len())].clone();
        if id == self.id_of(to) {
            return;
        }
        let ns = src.node_state(&id).unwrap().clone();
        let kvs: Vec<_> = ns
            .key_values_including_deleted()
            .map(|(k, v)| (k.to_string(), v.clone()))
            .collect();
        // O-7 (two keys at the same version) cannot come from a real copy.
        self.log(format!(
            "catchup n{to} <- n{source}'s copy of {id:?} (max {} gc {})",
            ns.max_version(),
            ns.last_gc_version()
        ));
        let model = &mut self.slots[to].model;
        if !model.known.contains_key(&id) && !model.removed.contains_key(&id) {
            model.known.insert(id.clone(), MemberModel::default());
        }
        self.slots[to]
            .node
            .as_mut()
            .unwrap()
            .reset_node_state_if_update(
                &id,
                kvs.into_iter(),
                ns.max_version(),
                ns.last_gc_version(),
            );
        self.check_sets(to, false);
    }

    fn mutate_kv(&mut self, rng: &mut Rng, slot: usize) {
        let Some(node) = self.slots[slot].node.as_mut() else {
            return;
        };
        let keys = ["ready", "a", "b", "c"];
        let key = keys[rng.below(keys.len())];
        let st = node.self_node_state();
        if BULK.load(Relaxed) == 1 && rng.chance(1, 3) {
            // incompressible bulk values, so that replies get truncated at the MTU
            for i in 0..(1 + rng.below(12)) {
                let k = format!("big{}", rng.below(40));
                if rng.chance(1, 4) {
                    st.delete(&k);
                } else {
                    let v: String = (0..3000)
                        .map(|_| (b'!' + (rng.next() % 90) as u8) as char)
                        .collect();
                    st.set(k, v);
                }
                let _ = i;
            }
            self.log(format!("kv n{slot} bulk"));
            return;
        }
        let what = rng.below(5);
        match what {
            0 | 1 => st.set(key, format!("v{}", rng.below(3))),
            2 => st.delete(key),
            3 => st.set_with_ttl(key, format!("t{}", rng.below(3))),
            _ => st.delete_after_ttl(key),
        }
        self.log(format!("kv n{slot} op{what} {key}"));
    }
}

async fn run_one(seed: u64, steps: usize) {
    let mut rng = Rng(seed);
    let phis = [0.5, 1.0, 2.0, 4.0, 8.0, 16.0];
    let windows = [1usize, 2, 5, 1000];
    let (max_interval, initial_interval) = match rng.below(4) {
        0 => (Duration::from_secs(2), Duration::from_secs(1)),
        1 => (Duration::from_secs(1), Duration::from_secs(2)),
        2 => (Duration::from_millis(500), Duration::from_millis(500)),
        _ => (Duration::from_secs(10), Duration::from_millis(100)),
    };
    let p = Params {
        num_nodes: 2 + rng.below(4),
        phi: phis[rng.below(phis.len())],
        window: windows[rng.below(windows.len())],
        max_interval,
        initial_interval,
        grace: Duration::from_secs([8, 20, 60][rng.below(3)]),
        kv_grace: Duration::from_secs([2, 5, 3600][rng.below(3)]),
        predicate: rng.chance(1, 2),
    };
    let slots = (0..p.num_nodes)
        .map(|i| Slot {
            addr: ([127, 0, 0, 1], 10_000 + i as u16).into(),
            generation: 0,
            node: None,
            model: ObserverModel::default(),
            rx: None,
            cluster: "c".to_string(),
        })
        .collect();
    let mut sim = Sim {
        p: p.clone(),
        slots,
        in_flight: Vec::new(),
        trace: vec![format!("seed {seed}")],
        start: Instant::now(),
        _seed_tx: Vec::new(),
    };
    for i in 0..p.num_nodes {
        sim.boot(i);
    }
    let n = p.num_nodes;
    // partition matrix
    let mut cut = vec![vec![false; n]; n];
    let dts = [0u64, 1, 10, 50, 100, 100, 200, 300, 500, 900, 1000, 2000];
    for _ in 0..steps {
        match rng.below(100) {
            0..=39 => {
                let a = rng.below(n);
                let b = rng.below(n);
                if a != b && !cut[a][b] {
                    sim.handshake(&mut rng, a, b);
                }
            }
            40..=59 => {
                let a = rng.below(n);
                sim.evaluate(a);
            }
            60..=79 => {
                let dt = Duration::from_millis(dts[rng.below(dts.len())]);
                tokio::time::advance(dt).await;
            }
            80..=81 => {
                // long jumps around the interesting thresholds
                let base = match rng.below(3) {
                    0 => p.grace / 2,
                    1 => p.grace,
                    _ => Duration::from_secs_f64(
                        p.phi * p.max_interval.max(p.initial_interval).as_secs_f64(),
                    ),
                };
                let jitter = Duration::from_millis(rng.below(400) as u64);
                let dt = if rng.chance(1, 2) {
                    base + jitter
                } else {
                    base.saturating_sub(jitter)
                };
                sim.log(format!("advance {dt:?}"));
                tokio::time::advance(dt).await;
            }
            82..=83 => {
                let a = rng.below(n);
                if sim.slots[a].node.is_some() {
                    sim.log(format!("crash n{a}"));
                    sim.slots[a].node = None;
                }
            }
            84..=85 => {
                let a = rng.below(n);
                if sim.slots[a].node.is_none() {
                    sim.slots[a].generation += 1;
                    if MULTI.load(Relaxed) == 1 {
                        sim.slots[a].cluster = if rng.chance(1, 3) { "d" } else { "c" }.to_string();
                    }
                    sim.log(format!("restart n{a} gen {}", sim.slots[a].generation));
                    sim.boot(a);
                }
            }
            86..=87 => {
                let a = rng.below(n);
                let b = rng.below(n);
                let v = rng.chance(1, 2);
                cut[a][b] = v;
                cut[b][a] = v;
                sim.log(format!("cut n{a} n{b} = {v}"));
            }
            88..=91 => sim.deliver_delayed(&mut rng),
            92..=93 => {
                let a = rng.below(n);
                let b = rng.below(n);
                if a != b {
                    sim.catchup(&mut rng, a, b);
                }
            }
            _ => {
                let a = rng.below(n);
                sim.mutate_kv(&mut rng, a);
            }
        }
    }
}

#[tokio::test(start_paused = true)]
async fn hunt_d3_explorer() {
    let seeds: u64 = std::env::var("HUNT_SEEDS")
        .ok()
        .and_then(|s| s.parse().ok())
        .unwrap_or(200);
    let base: u64 = std::env::var("HUNT_BASE")
        .ok()
        .and_then(|s| s.parse().ok())
        .unwrap_or(0);
    let steps: usize = std::env::var("HUNT_STEPS")
        .ok()
        .and_then(|s| s.parse().ok())
        .unwrap_or(600);
    if std::env::var("HUNT_BULK").is_ok() {
        BULK.store(1, Relaxed);
    }
    if std::env::var("HUNT_MULTI").is_ok() {
        MULTI.store(1, Relaxed);
    }
    for seed in base..base + seeds {
        run_one(seed, steps).await;
    }
    eprintln!("near-MTU datagrams: {}", ST_TRUNC.load(Relaxed));
    eprintln!(
        "stats: live-evals {} removed {} recreated {} refused {} steady-checks {} quarantine-sends \
         {} c10-first-detections {} publish-expected {}",
        ST_LIVE.load(Relaxed),
        ST_REMOVED.load(Relaxed),
        ST_RECREATED.load(Relaxed),
        ST_REFUSED.load(Relaxed),
        ST_STEADY.load(Relaxed),
        ST_QUAR.load(Relaxed),
        ST_C10.load(Relaxed),
        ST_PUB.load(Relaxed)
    );
}

/// C10 / C11 directly on the failure detector, wide configuration ranges.
#[tokio::test(start_paused = true)]
async fn hunt_d3_fd_fuzz() {
    use crate::failure_detector::FailureDetector;
    let cases: u64 = std::env::var("HUNT_FD_CASES")
        .ok()
        .and_then(|s| s.parse().ok())
        .unwrap_or(300);
    for seed in 0..cases {
        let mut rng = Rng(seed ^ 0xD3D3);
        let phi = 0.5 + (rng.below(15_501) as f64) / 1000.0;
        let window = 1 + rng.below(1000);
        let scale_ms = [1u64, 10, 100, 1000][rng.below(4)];
        let max_interval = Duration::from_millis(scale_ms * (1 + rng.below(10) as u64));
        let initial_interval = Duration::from_millis(
            [1u64, 10, 100, 1000][rng.below(4)] * (1 + rng.below(10) as u64),
        );
        let cfg = FailureDetectorConfig {
            phi_threshold: phi,
            sampling_window_size: window,
            max_interval,
            initial_interval,
            dead_node_grace_period: Duration::from_secs(3600),
        };
        let mut fd = FailureDetector::new(cfg);
        let id = ChitchatId::for_local_test(10_001);
        let deadline =
            Duration::from_secs_f64(phi * max_interval.max(initial_interval).as_secs_f64());
        let arrivals = 1 + rng.below(2000);
        let mut times: Vec<Instant> = Vec::new();
        // steady phase parameters
        let mut steady = rng.chance(1, 2);
        let a = Duration::from_micros(1 + rng.below(max_interval.as_micros() as usize) as u64);
        let b = a + Duration::from_micros(
            rng.below((max_interval - a).as_micros() as usize + 1) as u64,
        );
        let steady_ok = phi * 0.999 >= b.as_secs_f64() / a.min(initial_interval).as_secs_f64();
        let mut was_live = false;
        for k in 0..arrivals {
            // choose the gap
            let gap = if steady {
                a + Duration::from_micros(rng.below((b - a).as_micros() as usize + 1) as u64)
            } else {
                match rng.below(8) {
                    0 => Duration::ZERO,
                    1 => max_interval,
                    2 => max_interval + Duration::from_micros(1),
                    3 => deadline + Duration::from_millis(1 + rng.below(1000) as u64),
                    4 => deadline,
                    _ => Duration::from_micros(
                        rng.below(2 * max_interval.as_micros() as usize + 1) as u64
                    ),
                }
            };
            // evaluate somewhere inside the gap
            if rng.chance(1, 2) && gap > Duration::ZERO {
                let part = Duration::from_micros(rng.below(gap.as_micros() as usize + 1) as u64);
                tokio::time::advance(part).await;
                fd.update_node_liveness(&id);
                let live = fd.live_nodes().any(|x| *x == id);
                let dead = fd.dead_nodes().any(|x| *x == id);
                assert!(live != dead, "seed {seed}: live {live} dead {dead}");
                if times.len() < 2 {
                    assert!(!live, "seed {seed}: live with {} observations", times.len());
                }
                if let Some(last) = times.last() {
                    let silent = Instant::now().duration_since(*last);
                    if silent > deadline + Duration::from_micros(1) {
                        assert!(!live, "C10 seed {seed}: live, silent {silent:?} > {deadline:?}");
                    }
                }
                if steady && steady_ok && was_live {
                    assert!(
                        live,
                        "C11 seed {seed}: steady [{a:?},{b:?}] phi {phi} init \
                         {initial_interval:?} max {max_interval:?} window {window} k {k} flagged"
                    );
                }
                was_live = live;
                tokio::time::advance(gap - part).await;
            } else {
                tokio::time::advance(gap).await;
            }
            fd.report_heartbeat(&id);
            times.push(Instant::now());
            if !steady && rng.chance(1, 200) {
                steady = true;
                was_live = false;
            }
        }
    }
}

/// C12 at the bound of the removed-member memory: 500 members removed in one evaluation are all
/// still refused when a survivor keeps advertising them with the same heartbeat.
#[tokio::test(start_paused = true)]
async fn hunt_d3_removed_memory_bound() {
    use crate::digest::Digest;
    use crate::types::Heartbeat;
    let mut config = ChitchatConfig::for_test(10_000);
    config.failure_detector_config.dead_node_grace_period = Duration::from_secs(10);
    let (_tx, rx) = watch::channel(HashSet::new());
    let mut node = Chitchat::with_chitchat_id_and_seeds(config, rx, vec![]);
    let members: Vec<ChitchatId> = (0..500u64)
        .map(|g| ChitchatId::new("x".to_string(), g, ([127, 0, 0, 1], 10_001).into()))
        .collect();
    let mut digest = Digest::default();
    for m in &members {
        digest.add_node(m.clone(), Heartbeat(7), 0, 0);
    }
    let syn = ChitchatMessage::Syn {
        cluster_id: "default-cluster".to_string(),
        digest,
    };
    let bytes = syn.serialize_to_vec();
    let deliver = |node: &mut Chitchat| {
        let mut buf = &bytes[..];
        let msg = ChitchatMessage::deserialize(&mut buf).unwrap();
        node.process_message(msg);
    };
    deliver(&mut node);
    assert_eq!(node.node_states().len(), 501);
    node.update_nodes_liveness();
    assert_eq!(node.dead_nodes().count(), 500);
    tokio::time::advance(Duration::from_secs(10)).await;
    node.update_nodes_liveness();
    assert_eq!(node.node_states().len(), 1);
    deliver(&mut node);
    assert_eq!(
        node.node_states().len(),
        1,
        "C12: members removed within the memory bound were recreated by an equal heartbeat"
    );
}
