//! Bug hunt B4 (properties C10..C13). Both tests FAIL on the unmodified library.
//!
//! Both findings are rounding defects at the exact boundary of the stated bounds; see NOTES.md.

use std::time::Duration;

use tokio::sync::watch;

use crate::digest::Digest;
use crate::failure_detector::FailureDetectorConfig;
use crate::{Chitchat, ChitchatConfig, ChitchatId, ChitchatMessage, Heartbeat};

fn new_node(port: u16, failure_detector_config: FailureDetectorConfig) -> Chitchat {
    let mut config = ChitchatConfig::for_test(port);
    config.failure_detector_config = failure_detector_config;
    let empty_seeds = watch::channel(Default::default()).1;
    Chitchat::with_chitchat_id_and_seeds(config, empty_seeds, Vec::new())
}

/// A SYN sent by `peer`, whose digest only carries its own heartbeat.
fn syn_from(peer: &ChitchatId, heartbeat: u64) -> ChitchatMessage {
    let mut digest = Digest::default();
    digest.add_node(peer.clone(), Heartbeat(heartbeat), 0, 0);
    ChitchatMessage::Syn {
        cluster_id: "default-cluster".to_string(),
        digest,
    }
}

/// C11, second sentence: fresh heartbeats at intervals within [a, b], b <= max_interval, and
/// phi_threshold >= b / min(a, initial_interval)  ==>  live at every evaluation.
///
/// Here a = b = initial_interval = 100ms and phi_threshold = 1.0 = b / min(a, initial_interval).
/// The peer's heartbeat grows by one every 100ms sharp, and the liveness is evaluated every 100ms,
/// right before the datagram that is due at that instant is processed.
#[tokio::test(start_paused = true)]
async fn c11_steady_member_flagged_dead_when_threshold_equals_the_bound() {
    let period = Duration::from_millis(100);
    let mut node = new_node(
        10_001,
        FailureDetectorConfig::new(
            1.0,                     // phi_threshold == b / min(a, initial_interval)
            1_000,                   // sampling window
            Duration::from_secs(10), // max_interval >= b
            period,                  // initial_interval
            Duration::from_secs(3_600),
        ),
    );
    let peer = ChitchatId::for_local_test(10_002);

    let mut has_been_live = false;
    for heartbeat in 1..=50u64 {
        if heartbeat > 1 {
            tokio::time::advance(period).await;
        }
        // Evaluation exactly `b` after the previous fresh heartbeat.
        node.update_nodes_liveness();
        let is_live = node.live_nodes().any(|id| id == &peer);
        assert!(
            is_live || !has_been_live,
            "C11 violated: heartbeats 1..={} of the peer arrived every 100ms (a = b = \
             initial_interval = 100ms, max_interval = 10s, phi_threshold = 1.0 >= b / min(a, \
             initial_interval)), the peer was live, and the evaluation made 100ms after heartbeat \
             {} reports it dead",
            heartbeat - 1,
            heartbeat - 1,
        );
        node.process_message(syn_from(&peer, heartbeat));
        // Evaluation right after the arrival (phi = 0).
        node.update_nodes_liveness();
        has_been_live |= node.live_nodes().any(|id| id == &peer);
    }
    assert!(has_been_live);
}

/// C12: a member continuously dead for more than half the dead-node grace period is no longer
/// mentioned in any digest the node sends.
///
/// dead_node_grace_period = 24h + 200ms. Half of it is 43_200.1s. The peer has been in the dead
/// set for 43_200.101s and is still advertised (and it stays so for 1.5625ms after the half).
#[tokio::test(start_paused = true)]
async fn c12_member_dead_for_more_than_half_the_grace_period_still_in_digest() {
    let grace = Duration::from_millis(86_400_200);
    let mut node = new_node(
        10_001,
        FailureDetectorConfig::new(
            8.0,
            1_000,
            Duration::from_secs(10),
            Duration::from_secs(5),
            grace,
        ),
    );
    let peer = ChitchatId::for_local_test(10_002);
    // The peer is learnt from one datagram, and never heard of again.
    node.process_message(syn_from(&peer, 7));
    node.update_nodes_liveness();
    assert!(node.dead_nodes().any(|id| id == &peer));

    let dead_for = grace / 2 + Duration::from_millis(1);
    tokio::time::advance(dead_for).await;
    node.update_nodes_liveness();
    assert!(node.dead_nodes().any(|id| id == &peer));

    let ChitchatMessage::Syn { digest, .. } = node.create_syn_message() else {
        panic!("expected a SYN");
    };
    assert!(
        !digest.node_digests.contains_key(&peer),
        "C12 violated: the peer has been continuously dead for {dead_for:?}, more than half of \
         the dead-node grace period ({:?}), and the SYN digest still mentions it",
        grace / 2,
    );
}
