//! Bug-hunting explorers for C07 / C08 / C09 / C16 (wire focus).
#![allow(dead_code)]

use std::collections::{BTreeMap, BTreeSet, HashSet};
use std::net::SocketAddr;
use std::panic::{AssertUnwindSafe, catch_unwind};
use std::time::Duration;

use tokio::sync::watch;

use crate::serialize::{Deserializable, Serializable};
use crate::{
    Chitchat, ChitchatConfig, ChitchatId, ChitchatMessage, FailureDetectorConfig,
    MAX_UDP_DATAGRAM_PAYLOAD_SIZE,
};

// ---------------------------------------------------------------- rng

pub(crate) struct Rng(u64);
impl Rng {
    pub fn new(seed: u64) -> Rng {
        Rng(seed.wrapping_mul(0x9E3779B97F4A7C15) ^ 0xD1B54A32D192ED03)
    }
    pub fn next(&mut self) -> u64 {
        // splitmix64
        self.0 = self.0.wrapping_add(0x9E3779B97F4A7C15);
        let mut z = self.0;
        z = (z ^ (z >> 30)).wrapping_mul(0xBF58476D1CE4E5B9);
        z = (z ^ (z >> 27)).wrapping_mul(0x94D049BB133111EB);
        z ^ (z >> 31)
    }
    pub fn below(&mut self, n: u64) -> u64 {
        if n == 0 { 0 } else { self.next() % n }
    }
    pub fn range(&mut self, lo: u64, hi_incl: u64) -> u64 {
        lo + self.below(hi_incl - lo + 1)
    }
    pub fn chance(&mut self, num: u64, den: u64) -> bool {
        self.below(den) < num
    }
    pub fn pick<'a, T>(&mut self, items: &'a [T]) -> &'a T {
        &items[self.below(items.len() as u64) as usize]
    }
}

// ---------------------------------------------------------------- independent encoder

const MAGIC: [u8; 2] = [0x53, 0xB0]; // 45_139 little endian

fn w_u16(buf: &mut Vec<u8>, v: u16) {
    buf.extend_from_slice(&v.to_le_bytes());
}
fn w_u64(buf: &mut Vec<u8>, v: u64) {
    buf.extend_from_slice(&v.to_le_bytes());
}
fn w_str(buf: &mut Vec<u8>, s: &str) {
    w_u16(buf, s.len() as u16);
    buf.extend_from_slice(s.as_bytes());
}
fn w_id(buf: &mut Vec<u8>, id: &ChitchatId) {
    w_str(buf, &id.node_id);
    w_u64(buf, id.generation_id);
    match id.gossip_advertise_addr {
        SocketAddr::V4(a) => {
            buf.push(4);
            buf.extend_from_slice(&a.ip().octets());
        }
        SocketAddr::V6(a) => {
            buf.push(6);
            buf.extend_from_slice(&a.ip().octets());
        }
    }
    w_u16(buf, id.gossip_advertise_addr.port());
}

#[derive(Clone, Debug)]
pub(crate) enum Op {
    Node { id: ChitchatId, last_gc: u64, from: u64 },
    Kv { key: String, value: String, version: u64, status: u8 },
    SetMax(u64),
}

fn w_op(buf: &mut Vec<u8>, op: &Op) {
    match op {
        Op::Node { id, last_gc, from } => {
            buf.push(0);
            w_id(buf, id);
            w_u64(buf, *last_gc);
            w_u64(buf, *from);
        }
        Op::Kv { key, value, version, status } => {
            buf.push(1);
            w_str(buf, key);
            w_str(buf, value);
            w_u64(buf, *version);
            buf.push(*status);
        }
        Op::SetMax(v) => {
            buf.push(2);
            w_u64(buf, *v);
        }
    }
}

/// Encodes the op stream in blocks; `cuts` are the block sizes (cycled), `compress` says which
/// blocks are zstd-compressed.
fn w_stream(buf: &mut Vec<u8>, ops: &[Op], rng: &mut Rng) {
    let mut raw = Vec::new();
    for op in ops {
        w_op(&mut raw, op);
    }
    let mut pos = 0;
    while pos < raw.len() {
        let max_len = (raw.len() - pos).min(60_000);
        let len = match rng.below(4) {
            0 => max_len,
            1 => rng.range(1, max_len as u64) as usize,
            2 => max_len.min(16_384),
            _ => rng.range(1, max_len.min(64) as u64) as usize,
        };
        let chunk = &raw[pos..pos + len];
        pos += len;
        if rng.chance(1, 2) {
            let compressed = zstd::bulk::compress(chunk, 3).unwrap();
            if compressed.len() <= u16::MAX as usize {
                buf.push(1);
                w_u16(buf, compressed.len() as u16);
                buf.extend_from_slice(&compressed);
                continue;
            }
        }
        buf.push(2);
        w_u16(buf, len as u16);
        buf.extend_from_slice(chunk);
    }
    buf.push(0);
}

type DigestEntries = Vec<(ChitchatId, u64, u64, u64)>; // id, heartbeat, last_gc, max_version

fn w_digest(buf: &mut Vec<u8>, entries: &DigestEntries) {
    w_u16(buf, entries.len() as u16);
    for (id, hb, gc, mv) in entries {
        w_id(buf, id);
        w_u64(buf, *hb);
        w_u64(buf, *gc);
        w_u64(buf, *mv);
    }
}

fn header(tag: u8) -> Vec<u8> {
    vec![MAGIC[0], MAGIC[1], 0, tag]
}

fn enc_syn(cluster_id: &str, digest: &DigestEntries) -> Vec<u8> {
    let mut buf = header(0);
    w_digest(&mut buf, digest);
    w_str(&mut buf, cluster_id);
    buf
}
fn enc_synack(digest: &DigestEntries, ops: &[Op], rng: &mut Rng) -> Vec<u8> {
    let mut buf = header(1);
    w_digest(&mut buf, digest);
    w_stream(&mut buf, ops, rng);
    buf
}
fn enc_ack(ops: &[Op], rng: &mut Rng) -> Vec<u8> {
    let mut buf = header(2);
    w_stream(&mut buf, ops, rng);
    buf
}

// ---------------------------------------------------------------- nodes

fn make_node(port: u16, cluster_id: &str, mfd_grace: Duration) -> Chitchat {
    let chitchat_id = ChitchatId::for_local_test(port);
    let config = ChitchatConfig {
        chitchat_id: chitchat_id.clone(),
        cluster_id: cluster_id.to_string(),
        gossip_interval: Duration::from_millis(100),
        listen_addr: chitchat_id.gossip_advertise_addr,
        seed_nodes: Vec::new(),
        failure_detector_config: FailureDetectorConfig {
            dead_node_grace_period: Duration::from_secs(20),
            phi_threshold: 5.0,
            initial_interval: Duration::from_millis(100),
            ..Default::default()
        },
        marked_for_deletion_grace_period: mfd_grace,
        catchup_callback: None,
        extra_liveness_predicate: None,
    };
    let seeds = watch::channel(Default::default()).1;
    Chitchat::with_chitchat_id_and_seeds(config, seeds, Vec::new())
}

/// Sends a message through the real wire format.
fn through_wire(msg: &ChitchatMessage) -> ChitchatMessage {
    let bytes = msg.serialize_to_vec();
    assert_eq!(bytes.len(), msg.serialized_len(), "announced length != written length");
    assert!(
        bytes.len() <= MAX_UDP_DATAGRAM_PAYLOAD_SIZE,
        "message of {} bytes does not fit a datagram",
        bytes.len()
    );
    let mut cursor = &bytes[..];
    let decoded = ChitchatMessage::deserialize(&mut cursor).expect("own message must decode");
    assert!(cursor.is_empty(), "decoder left bytes behind");
    assert_eq!(&decoded, msg, "decoded message differs");
    decoded
}

fn handshake(a: &mut Chitchat, b: &mut Chitchat) {
    let syn = through_wire(&a.create_syn_message());
    let Some(syn_ack) = b.process_message(syn) else { return };
    let syn_ack = through_wire(&syn_ack);
    let Some(ack) = a.process_message(syn_ack) else { return };
    let ack = through_wire(&ack);
    assert!(b.process_message(ack).is_none());
}

type Frontier = BTreeMap<ChitchatId, (u64, u64, u64)>; // last_gc, max_version, heartbeat

fn frontier(node: &Chitchat) -> Frontier {
    node.node_states()
        .iter()
        .map(|(id, st)| {
            (
                id.clone(),
                (st.last_gc_version(), st.max_version(), st.heartbeat().0),
            )
        })
        .collect()
}

fn check_invariants(node: &Chitchat, before: &Frontier, what: &str) {
    let after = frontier(node);
    for (id, (gc0, mv0, hb0)) in before {
        if let Some((gc1, mv1, hb1)) = after.get(id) {
            assert!(
                (*gc1, *mv1) >= (*gc0, *mv0),
                "{what}: frontier of {id:?} went backward {:?} -> {:?}",
                (gc0, mv0),
                (gc1, mv1)
            );
            assert!(hb1 >= hb0, "{what}: heartbeat of {id:?} went backward");
        }
    }
    let live: BTreeSet<ChitchatId> = node.failure_detector.live_nodes().cloned().collect();
    let dead: BTreeSet<ChitchatId> = node.failure_detector.dead_nodes().cloned().collect();
    assert!(live.is_disjoint(&dead), "{what}: live and dead overlap");
    for id in live.iter().chain(dead.iter()) {
        assert!(
            node.node_states().contains_key(id),
            "{what}: classified node {id:?} unknown"
        );
        assert_ne!(id, node.self_chitchat_id(), "{what}: self classified");
    }
    for (id, st) in node.node_states() {
        let mut versions = HashSet::new();
        for (key, vv) in st.key_values_including_deleted() {
            assert!(
                vv.version <= st.max_version(),
                "{what}: {id:?} key {key:?} version {} above max_version {}",
                vv.version,
                st.max_version()
            );
            assert!(
                versions.insert(vv.version),
                "{what}: {id:?} has two keys at version {}",
                vv.version
            );
        }
    }
}

// ---------------------------------------------------------------- hostile generator

struct Pool {
    ids: Vec<ChitchatId>,
}

fn interesting_u64(rng: &mut Rng, near: &[u64], big: bool) -> u64 {
    match rng.below(8) {
        0 => 0,
        1 => 1,
        2 | 3 if !near.is_empty() => {
            let base = *rng.pick(near);
            let delta = rng.below(4);
            if rng.chance(1, 2) { base.saturating_add(delta) } else { base.saturating_sub(delta) }
        }
        4 if big => u64::MAX - rng.below(3),
        5 if big => 1u64 << rng.range(30, 63),
        _ => rng.below(40),
    }
}

fn small_string(rng: &mut Rng) -> String {
    const KEYS: [&str; 8] = ["", "a", "b", "k1", "k2", "é", "日本", "key:z"];
    rng.pick(&KEYS).to_string()
}

fn gen_ops(rng: &mut Rng, pool: &Pool, near: &[u64], big: bool) -> Vec<Op> {
    let mut ops = Vec::new();
    let num = rng.range(0, 8);
    for _ in 0..num {
        match rng.below(10) {
            0..=2 => ops.push(Op::Node {
                id: rng.pick(&pool.ids).clone(),
                last_gc: interesting_u64(rng, near, big),
                from: if rng.chance(1, 2) { 0 } else { interesting_u64(rng, near, big) },
            }),
            3..=7 => ops.push(Op::Kv {
                key: small_string(rng),
                value: small_string(rng),
                version: interesting_u64(rng, near, big),
                status: if rng.chance(1, 30) { 3 } else { rng.below(3) as u8 },
            }),
            _ => ops.push(Op::SetMax(interesting_u64(rng, near, big))),
        }
    }
    // Most of the time make the stream start with a node op, and versions increasing, so that it
    // decodes.
    if rng.chance(4, 5) {
        if !matches!(ops.first(), Some(Op::Node { .. })) {
            ops.insert(
                0,
                Op::Node {
                    id: rng.pick(&pool.ids).clone(),
                    last_gc: interesting_u64(rng, near, big),
                    from: if rng.chance(1, 2) { 0 } else { interesting_u64(rng, near, big) },
                },
            );
        }
        let mut seen = HashSet::new();
        let mut cur = 0u64;
        let mut fixed = Vec::new();
        for op in ops {
            match op {
                Op::Node { id, last_gc, from } => {
                    if seen.insert(id.clone()) {
                        cur = 0;
                        fixed.push(Op::Node { id, last_gc, from });
                    }
                }
                Op::Kv { key, value, version, status } => {
                    let version = if version > cur {
                        version
                    } else {
                        cur.saturating_add(1 + rng.below(3))
                    };
                    if version > cur {
                        cur = version;
                        fixed.push(Op::Kv { key, value, version, status: status % 3 });
                    }
                }
                Op::SetMax(v) => {
                    let v = v.max(cur);
                    cur = v;
                    fixed.push(Op::SetMax(v));
                }
            }
        }
        ops = fixed;
    }
    ops
}

fn gen_digest(rng: &mut Rng, pool: &Pool, near: &[u64], big: bool) -> DigestEntries {
    let num = rng.range(0, 5);
    (0..num)
        .map(|_| {
            (
                rng.pick(&pool.ids).clone(),
                interesting_u64(rng, near, big),
                interesting_u64(rng, near, big),
                interesting_u64(rng, near, big),
            )
        })
        .collect()
}

fn near_values(nodes: &[Chitchat]) -> Vec<u64> {
    let mut near = Vec::new();
    for node in nodes {
        for st in node.node_states().values() {
            near.push(st.max_version());
            near.push(st.last_gc_version());
            near.push(st.heartbeat().0);
        }
    }
    near
}

fn deliver_hostile(node: &mut Chitchat, bytes: &[u8], what: &str) -> Result<(), String> {
    let decoded = catch_unwind(AssertUnwindSafe(|| {
        let mut cursor = bytes;
        ChitchatMessage::deserialize(&mut cursor)
    }));
    let msg = match decoded {
        Err(_) => return Err(format!("{what}: decoder panicked")),
        Ok(Err(_)) => return Ok(()),
        Ok(Ok(msg)) => msg,
    };
    if matches!(msg, ChitchatMessage::PanicForTest) {
        return Ok(());
    }
    let before = frontier(node);
    let desc = format!("{msg:?}");
    let desc: String = desc.chars().take(1500).collect();
    let outcome = catch_unwind(AssertUnwindSafe(|| {
        let reply = node.process_message(msg);
        check_invariants(node, &before, what);
        if let Some(reply) = reply {
            through_wire(&reply);
        }
    }));
    match outcome {
        Ok(()) => Ok(()),
        Err(payload) => {
            let text = payload
                .downcast_ref::<String>()
                .cloned()
                .or_else(|| payload.downcast_ref::<&str>().map(|s| s.to_string()))
                .unwrap_or_default();
            Err(format!("{what}: panic `{text}` on {desc}"))
        }
    }
}

fn honest_step(rng: &mut Rng, nodes: &mut [Chitchat]) {
    let n = nodes.len();
    match rng.below(10) {
        0..=2 => {
            let i = rng.below(n as u64) as usize;
            let key = small_string(rng);
            let value = format!("v{}", rng.below(5));
            if nodes[i].self_node_state().max_version() >= u64::MAX - 100 {
                // Known observation: a hostile delta about the receiver itself can push its own
                // max_version to u64::MAX; the next local write then overflows.
                return;
            }
            match rng.below(5) {
                0 => nodes[i].self_node_state().delete(&key),
                1 => nodes[i].self_node_state().set_with_ttl(key, value),
                2 => nodes[i].self_node_state().delete_after_ttl(&key),
                _ => nodes[i].self_node_state().set(key, value),
            }
        }
        3..=6 => {
            let i = rng.below(n as u64) as usize;
            let mut j = rng.below(n as u64) as usize;
            if i == j {
                j = (j + 1) % n;
            }
            let (a, b) = if i < j {
                let (l, r) = nodes.split_at_mut(j);
                (&mut l[i], &mut r[0])
            } else {
                let (l, r) = nodes.split_at_mut(i);
                (&mut r[0], &mut l[j])
            };
            handshake(a, b);
        }
        _ => {
            let i = rng.below(n as u64) as usize;
            let before = frontier(&nodes[i]);
            nodes[i].update_self_heartbeat();
            nodes[i].gc_keys_marked_for_deletion();
            nodes[i].update_nodes_liveness();
            // members may have been removed; the rest must not go backward
            check_invariants(&nodes[i], &before, "round");
        }
    }
}

async fn run_c09_episode(seed: u64, big: bool) -> Result<(), String> {
    let mut rng = Rng::new(seed);
    let grace = Duration::from_secs(rng.range(1, 30));
    let mut nodes: Vec<Chitchat> = (0..3).map(|i| make_node(10_001 + i, "c", grace)).collect();
    let mut pool = Pool { ids: nodes.iter().map(|n| n.self_chitchat_id().clone()).collect() };
    pool.ids.push(ChitchatId::for_local_test(10_050));
    pool.ids.push(ChitchatId::new("node-10001".to_string(), 1, "127.0.0.1:10001".parse().unwrap()));
    pool.ids.push(ChitchatId::new("".to_string(), 0, "[::1]:1".parse().unwrap()));
    let num_steps = rng.range(5, 60);
    let mut hostile_left = 20;
    for step in 0..num_steps {
        if rng.chance(1, 4) {
            tokio::time::advance(Duration::from_millis(*rng.pick(&[10, 100, 1_000, 6_000, 11_000])))
                .await;
        }
        if hostile_left > 0 && rng.chance(1, 3) {
            hostile_left -= 1;
            let near = near_values(&nodes);
            let target = rng.below(3) as usize;
            let bytes = match rng.below(4) {
                0 => enc_syn(if rng.chance(9, 10) { "c" } else { "d" }, &gen_digest(&mut rng, &pool, &near, big)),
                1 => {
                    let digest = gen_digest(&mut rng, &pool, &near, big);
                    let ops = gen_ops(&mut rng, &pool, &near, big);
                    enc_synack(&digest, &ops, &mut rng)
                }
                2 => {
                    let ops = gen_ops(&mut rng, &pool, &near, big);
                    enc_ack(&ops, &mut rng)
                }
                _ => {
                    // damaged variant of a valid message
                    let other = (target + 1) % 3;
                    let syn = nodes[other].create_syn_message();
                    let reply = {
                        // compute a genuine syn-ack from a clone-free path: ask the target itself
                        nodes[target].process_message(syn).unwrap()
                    };
                    let mut bytes = reply.serialize_to_vec();
                    for _ in 0..rng.range(1, 4) {
                        let pos = rng.below(bytes.len() as u64) as usize;
                        bytes[pos] ^= 1 << rng.below(8);
                    }
                    if rng.chance(1, 3) {
                        let new_len = rng.below(bytes.len() as u64) as usize;
                        bytes.truncate(new_len);
                    }
                    bytes
                }
            };
            deliver_hostile(&mut nodes[target], &bytes, &format!("seed {seed} step {step}"))?;
        } else {
            let outcome = catch_unwind(AssertUnwindSafe(|| honest_step(&mut rng, &mut nodes)));
            if let Err(payload) = outcome {
                let text = payload
                    .downcast_ref::<String>()
                    .cloned()
                    .or_else(|| payload.downcast_ref::<&str>().map(|s| s.to_string()))
                    .unwrap_or_default();
                return Err(format!("seed {seed} step {step}: honest step panicked: {text}"));
            }
        }
    }
    Ok(())
}

#[tokio::test(start_paused = true)]
#[ignore]
async fn explore_c09() {
    let num: u64 = std::env::var("HUNT_N").ok().and_then(|s| s.parse().ok()).unwrap_or(2_000);
    let big = std::env::var("HUNT_BIG").is_ok();
    let mut failures = Vec::new();
    std::panic::set_hook(Box::new(|info| {
        if std::env::var("HUNT_LOC").is_ok() {
            eprintln!("PANIC AT {:?}", info.location());
        }
    }));
    for seed in 0..num {
        if let Err(msg) = run_c09_episode(seed, big).await {
            failures.push(msg);
            if failures.len() >= 10 {
                break;
            }
        }
    }
    let _ = std::panic::take_hook();
    for failure in &failures {
        eprintln!("FAILURE: {failure}\n");
    }
    assert!(failures.is_empty(), "{} failures", failures.len());
}

// ---------------------------------------------------------------- C07 / C08 explorer

use crate::delta::Delta;
use crate::digest::Digest;
use crate::state::ClusterState;
use crate::types::DeletionStatusMutation;
use crate::Heartbeat;

fn gen_text(rng: &mut Rng, len: usize, mode: u64) -> String {
    let mut s = String::with_capacity(len);
    match mode {
        0 => {
            for _ in 0..len {
                s.push('a');
            }
        }
        1 => {
            const WORDS: [&str; 6] = ["alpha ", "indexer ", "10.0.0.1:7280 ", "ready ", "{\"k\":1} ", "z"];
            while s.len() < len {
                s.push_str(WORDS[rng.below(WORDS.len() as u64) as usize]);
            }
            s.truncate(len);
        }
        2 => {
            // hex-like
            for _ in 0..len {
                s.push(char::from(b"0123456789abcdef"[rng.below(16) as usize]));
            }
        }
        _ => {
            // near-incompressible 7-bit content
            for _ in 0..len {
                s.push(char::from(rng.below(128) as u8));
            }
        }
    }
    s
}

fn gen_len(rng: &mut Rng) -> usize {
    match rng.below(12) {
        0 => 0,
        1 => 1,
        2 => rng.range(254, 257) as usize,
        3 => rng.range(16_370, 16_390) as usize,
        4 => rng.range(32_750, 32_780) as usize,
        5 => rng.range(49_140, 49_160) as usize,
        6 => rng.range(60_000, 65_000) as usize,
        7 => rng.range(1_000, 20_000) as usize,
        _ => rng.range(0, 300) as usize,
    }
}

struct Model {
    // per member: entries (version -> key, value, status), max_version, last_gc
    members: BTreeMap<ChitchatId, (BTreeMap<u64, (String, String, DeletionStatusMutation)>, u64, u64)>,
}

fn model_of(state: &ClusterState) -> Model {
    let mut members = BTreeMap::new();
    for (id, st) in state.node_states() {
        let mut entries = BTreeMap::new();
        for (key, vv) in st.key_values_including_deleted() {
            let prev = entries.insert(
                vv.version,
                (key.to_string(), vv.value.clone(), DeletionStatusMutation::from(vv.status)),
            );
            assert!(prev.is_none());
        }
        members.insert(id.clone(), (entries, st.max_version(), st.last_gc_version()));
    }
    Model { members }
}

/// Checks a delta against what C07 predicts. Returns the number of key-values carried.
fn check_delta_c07(
    model: &Model,
    digest: &Digest,
    scheduled: &HashSet<&ChitchatId>,
    delta: &Delta,
    mtu: usize,
    what: &str,
) -> usize {
    let bytes = delta.serialize_to_vec();
    assert_eq!(bytes.len(), delta.serialized_len(), "{what}: announced length");
    assert!(bytes.len() <= mtu, "{what}: delta of {} bytes for a budget of {mtu}", bytes.len());
    let decoded = Delta::deserialize(&mut &bytes[..]).unwrap();
    assert_eq!(&decoded, delta, "{what}: round trip");
    let mut seen = HashSet::new();
    let mut num_kvs = 0;
    for node_delta in &delta.node_deltas {
        let id = &node_delta.chitchat_id;
        assert!(seen.insert(id.clone()), "{what}: member twice");
        assert!(!scheduled.contains(id), "{what}: member scheduled for deletion included");
        let (entries, max_version, last_gc) = model.members.get(id).expect("unknown member");
        let (d_gc, d_max) = digest
            .node_digests
            .get(id)
            .map(|nd| (nd.last_gc_version, nd.max_version))
            .unwrap_or((0, 0));
        assert!(*max_version > d_max, "{what}: nothing to offer for {id:?}");
        let reset = d_gc < *last_gc && d_max < *last_gc;
        let start = if reset { 0 } else { d_max };
        assert_eq!(node_delta.from_version_excluded, start, "{what}: start version");
        assert_eq!(node_delta.last_gc_version, *last_gc, "{what}: last gc");
        let expected: Vec<_> = entries.range(start + 1..).collect();
        assert!(node_delta.key_values.len() <= expected.len());
        for (kv, (version, (key, value, status))) in node_delta.key_values.iter().zip(expected.iter()) {
            assert_eq!(kv.version, **version, "{what}: gap or disorder");
            assert_eq!(&kv.key, key);
            assert_eq!(&kv.value, value);
            assert_eq!(kv.status, *status);
        }
        num_kvs += node_delta.key_values.len();
        if let Some(last) = node_delta.key_values.last() {
            assert_eq!(node_delta.max_version, last.version);
        } else {
            assert!(node_delta.max_version == 0 || (expected.is_empty() && node_delta.max_version == *max_version),
                "{what}: empty member with max_version {}", node_delta.max_version);
        }
    }
    num_kvs
}

fn build_state(rng: &mut Rng, text_mode: u64) -> ClusterState {
    let mut state = ClusterState::default();
    let num_members = rng.range(1, 6);
    let mut budget_bytes: usize = rng.range(1_000, 200_000) as usize;
    for m in 0..num_members {
        let id = if rng.chance(1, 4) {
            let id_len = rng.range(0, 300) as usize;
            ChitchatId::new(
                gen_text(rng, id_len, 1),
                rng.next(),
                "[2001:db8::1]:7000".parse().unwrap(),
            )
        } else {
            ChitchatId::for_local_test(20_000 + m as u16)
        };
        let st = state.node_state_mut_or_init(&id);
        let num_keys = rng.range(0, 12);
        for k in 0..num_keys {
            let key_len = if rng.chance(1, 10) { gen_len(rng) } else { rng.range(0, 20) as usize };
            let value_len = gen_len(rng).min(budget_bytes);
            budget_bytes = budget_bytes.saturating_sub(value_len);
            let mut key = gen_text(rng, key_len, text_mode);
            key.push_str(&format!("#{k}"));
            let value = gen_text(rng, value_len, text_mode);
            match rng.below(6) {
                0 => st.set_with_ttl(key.clone(), value),
                _ => st.set(key.clone(), value),
            }
            if rng.chance(1, 6) {
                st.delete(&key);
            }
        }
        if rng.chance(1, 4) {
            // pretend some tombstones were collected
            let gc = rng.range(0, st.max_version() + 2);
            st.set_last_gc_version(gc);
        }
        if rng.chance(1, 5) {
            let mv = st.max_version() + rng.below(3);
            st.set_max_version(mv);
        }
    }
    state
}

fn gen_peer_digest(rng: &mut Rng, state: &ClusterState) -> Digest {
    let mut digest = Digest::default();
    for (id, st) in state.node_states() {
        if rng.chance(1, 3) {
            continue;
        }
        let mv = match rng.below(4) {
            0 => 0,
            1 => st.max_version(),
            2 => st.max_version().saturating_sub(rng.below(3)),
            _ => rng.range(0, st.max_version() + 1),
        };
        let gc = match rng.below(3) {
            0 => 0,
            1 => st.last_gc_version(),
            _ => rng.range(0, st.last_gc_version() + 1),
        };
        digest.add_node(id.clone(), Heartbeat(rng.below(10)), gc, mv);
    }
    digest
}

#[test]
#[ignore]
fn explore_c07() {
    let num: u64 = std::env::var("HUNT_N").ok().and_then(|s| s.parse().ok()).unwrap_or(300);
    let mut total_checks = 0u64;
    let mut multi_block = 0u64;
    for seed in 0..num {
        let mut rng = Rng::new(seed ^ 0xC07);
        let text_mode = rng.below(4);
        let state = build_state(&mut rng, text_mode);
        let model = model_of(&state);
        let digest = gen_peer_digest(&mut rng, &state);
        let ids: Vec<ChitchatId> = state.nodes().cloned().collect();
        let mut scheduled: HashSet<&ChitchatId> = HashSet::new();
        for id in &ids {
            if rng.chance(1, 8) {
                scheduled.insert(id);
            }
        }
        // Budgets: the full one, then a sweep around every boundary observed.
        let full = MAX_UDP_DATAGRAM_PAYLOAD_SIZE - 4;
        let mut budgets: BTreeSet<usize> = BTreeSet::new();
        budgets.insert(full);
        budgets.insert(100);
        for _ in 0..4 {
            budgets.insert(rng.range(100, full as u64) as usize);
        }
        for b in [16_380usize, 16_384, 16_388, 16_392, 32_768, 32_775, 49_152, 49_162] {
            for d in 0..3 {
                budgets.insert(b + d);
                budgets.insert(b - d);
            }
        }
        let mut pending: Vec<usize> = budgets.iter().copied().collect();
        let mut done: HashSet<usize> = HashSet::new();
        let mut sizes_seen: BTreeSet<usize> = BTreeSet::new();
        while let Some(mtu) = pending.pop() {
            if !(100..=full).contains(&mtu) || !done.insert(mtu) {
                continue;
            }
            let delta = state.compute_partial_delta_respecting_mtu(&digest, mtu, &scheduled);
            let what = format!("seed {seed} mtu {mtu}");
            check_delta_c07(&model, &digest, &scheduled, &delta, mtu, &what);
            total_checks += 1;
            let len = delta.serialized_len();
            if len > 16_400 {
                multi_block += 1;
            }
            if sizes_seen.insert(len) && done.len() < 120 {
                // sweep around the produced size: budgets just below force one more truncation
                for d in 0..4 {
                    pending.push(len.saturating_sub(d));
                    pending.push(len + d);
                }
            }
        }
    }
    eprintln!("checks: {total_checks}, deltas above one block: {multi_block}");
}

// ---------------------------------------------------------------- honest schedules with faults

struct InFlight {
    to: usize,
    from: usize,
    bytes: Vec<u8>,
}

fn make_node_gen(port: u16, generation: u64, cluster_id: &str, mfd_grace: Duration) -> Chitchat {
    let chitchat_id = ChitchatId::new(
        format!("node-{port}"),
        generation,
        ([127, 0, 0, 1], port).into(),
    );
    let config = ChitchatConfig {
        chitchat_id: chitchat_id.clone(),
        cluster_id: cluster_id.to_string(),
        gossip_interval: Duration::from_millis(100),
        listen_addr: chitchat_id.gossip_advertise_addr,
        seed_nodes: Vec::new(),
        failure_detector_config: FailureDetectorConfig {
            dead_node_grace_period: Duration::from_secs(20),
            phi_threshold: 5.0,
            initial_interval: Duration::from_millis(100),
            ..Default::default()
        },
        marked_for_deletion_grace_period: mfd_grace,
        catchup_callback: None,
        extra_liveness_predicate: None,
    };
    let seeds = watch::channel(Default::default()).1;
    Chitchat::with_chitchat_id_and_seeds(config, seeds, Vec::new())
}

fn emit(queue: &mut Vec<InFlight>, from: usize, to: usize, msg: &ChitchatMessage) {
    let bytes = msg.serialize_to_vec();
    assert_eq!(bytes.len(), msg.serialized_len());
    assert!(bytes.len() <= MAX_UDP_DATAGRAM_PAYLOAD_SIZE, "reply of {} bytes", bytes.len());
    let mut cursor = &bytes[..];
    let decoded = ChitchatMessage::deserialize(&mut cursor).unwrap();
    assert!(cursor.is_empty());
    assert_eq!(&decoded, msg);
    queue.push(InFlight { to, from, bytes });
}

async fn run_honest_episode(seed: u64) -> Result<(), String> {
    let mut rng = Rng::new(seed ^ 0x40_4E57);
    let grace = Duration::from_secs(rng.range(1, 15));
    let n = rng.range(2, 4) as usize;
    let mut generations = vec![0u64; n];
    let mut nodes: Vec<Chitchat> =
        (0..n).map(|i| make_node_gen(10_001 + i as u16, 0, "c", grace)).collect();
    let mut queue: Vec<InFlight> = Vec::new();
    let num_steps = rng.range(20, 150);
    let big_values = rng.chance(1, 4);
    for step in 0..num_steps {
        let outcome = catch_unwind(AssertUnwindSafe(|| {
            match rng.below(12) {
                0 | 1 => {
                    let i = rng.below(n as u64) as usize;
                    let key = small_string(&mut rng);
                    let value = if big_values && rng.chance(1, 3) {
                        let len = gen_len(&mut rng);
                        gen_text(&mut rng, len, 3)
                    } else {
                        format!("v{}", rng.below(5))
                    };
                    match rng.below(6) {
                        0 | 1 => nodes[i].self_node_state().delete(&key),
                        2 => nodes[i].self_node_state().set_with_ttl(key, value),
                        3 => nodes[i].self_node_state().delete_after_ttl(&key),
                        _ => nodes[i].self_node_state().set(key, value),
                    }
                }
                2 | 3 => {
                    // start a handshake
                    let i = rng.below(n as u64) as usize;
                    let j = (i + 1 + rng.below(n as u64 - 1) as usize) % n;
                    let syn = nodes[i].create_syn_message();
                    emit(&mut queue, i, j, &syn);
                }
                4..=7 => {
                    if queue.is_empty() {
                        return;
                    }
                    let idx = rng.below(queue.len() as u64) as usize;
                    let duplicate = rng.chance(1, 6);
                    let drop = rng.chance(1, 8);
                    let inflight = if duplicate {
                        InFlight {
                            to: queue[idx].to,
                            from: queue[idx].from,
                            bytes: queue[idx].bytes.clone(),
                        }
                    } else {
                        queue.swap_remove(idx)
                    };
                    if drop {
                        return;
                    }
                    let msg = ChitchatMessage::deserialize(&mut &inflight.bytes[..]).unwrap();
                    let before = frontier(&nodes[inflight.to]);
                    let reply = nodes[inflight.to].process_message(msg);
                    check_invariants(&nodes[inflight.to], &before, "deliver");
                    if let Some(reply) = reply {
                        emit(&mut queue, inflight.to, inflight.from, &reply);
                    }
                }
                8 | 9 => {
                    let i = rng.below(n as u64) as usize;
                    let before = frontier(&nodes[i]);
                    nodes[i].update_self_heartbeat();
                    nodes[i].gc_keys_marked_for_deletion();
                    nodes[i].update_nodes_liveness();
                    check_invariants(&nodes[i], &before, "round");
                }
                10 => {
                    if rng.chance(1, 3) {
                        // restart with a new generation
                        let i = rng.below(n as u64) as usize;
                        generations[i] += 1;
                        nodes[i] = make_node_gen(10_001 + i as u16, generations[i], "c", grace);
                    }
                }
                _ => {}
            }
        }));
        if let Err(payload) = outcome {
            let text = payload
                .downcast_ref::<String>()
                .cloned()
                .or_else(|| payload.downcast_ref::<&str>().map(|s| s.to_string()))
                .unwrap_or_default();
            return Err(format!("seed {seed} step {step}: panicked: {text}"));
        }
        if rng.chance(1, 3) {
            tokio::time::advance(Duration::from_millis(*rng.pick(&[
                10, 100, 500, 1_000, 3_000, 6_000, 11_000,
            ])))
            .await;
        }
    }
    Ok(())
}

#[tokio::test(start_paused = true)]
#[ignore]
async fn explore_honest() {
    let num: u64 = std::env::var("HUNT_N").ok().and_then(|s| s.parse().ok()).unwrap_or(2_000);
    let mut failures = Vec::new();
    std::panic::set_hook(Box::new(|info| {
        if std::env::var("HUNT_LOC").is_ok() {
            eprintln!("PANIC AT {:?}", info.location());
        }
    }));
    for seed in 0..num {
        if let Err(msg) = run_honest_episode(seed).await {
            failures.push(msg);
            if failures.len() >= 10 {
                break;
            }
        }
    }
    let _ = std::panic::take_hook();
    for failure in &failures {
        eprintln!("FAILURE: {failure}\n");
    }
    assert!(failures.is_empty(), "{} failures", failures.len());
}

// ---------------------------------------------------------------- C08: independent codec cross-check

fn r_u16(buf: &mut &[u8]) -> u16 {
    let v = u16::from_le_bytes([buf[0], buf[1]]);
    *buf = &buf[2..];
    v
}
fn r_u64(buf: &mut &[u8]) -> u64 {
    let v = u64::from_le_bytes(buf[..8].try_into().unwrap());
    *buf = &buf[8..];
    v
}
fn r_str(buf: &mut &[u8]) -> String {
    let len = r_u16(buf) as usize;
    let s = std::str::from_utf8(&buf[..len]).unwrap().to_string();
    *buf = &buf[len..];
    s
}
fn r_id(buf: &mut &[u8]) -> ChitchatId {
    let node_id = r_str(buf);
    let generation = r_u64(buf);
    let tag = buf[0];
    *buf = &buf[1..];
    let ip: std::net::IpAddr = if tag == 4 {
        let o: [u8; 4] = buf[..4].try_into().unwrap();
        *buf = &buf[4..];
        o.into()
    } else {
        assert_eq!(tag, 6);
        let o: [u8; 16] = buf[..16].try_into().unwrap();
        *buf = &buf[16..];
        o.into()
    };
    let port = r_u16(buf);
    ChitchatId::new(node_id, generation, SocketAddr::new(ip, port))
}
fn r_stream(buf: &mut &[u8]) -> Vec<Op> {
    let mut raw = Vec::new();
    loop {
        let tag = buf[0];
        *buf = &buf[1..];
        match tag {
            0 => break,
            1 => {
                let len = r_u16(buf) as usize;
                raw.extend(zstd::bulk::decompress(&buf[..len], 1 << 20).unwrap());
                *buf = &buf[len..];
            }
            2 => {
                let len = r_u16(buf) as usize;
                raw.extend_from_slice(&buf[..len]);
                *buf = &buf[len..];
            }
            _ => panic!("bad block tag"),
        }
    }
    let mut cur = &raw[..];
    let mut ops = Vec::new();
    while !cur.is_empty() {
        let tag = cur[0];
        cur = &cur[1..];
        match tag {
            0 => {
                let id = r_id(&mut cur);
                let last_gc = r_u64(&mut cur);
                let from = r_u64(&mut cur);
                ops.push(Op::Node { id, last_gc, from });
            }
            1 => {
                let key = r_str(&mut cur);
                let value = r_str(&mut cur);
                let version = r_u64(&mut cur);
                let status = cur[0];
                cur = &cur[1..];
                ops.push(Op::Kv { key, value, version, status });
            }
            2 => ops.push(Op::SetMax(r_u64(&mut cur))),
            _ => panic!("bad op tag"),
        }
    }
    ops
}

fn ops_of(delta: &Delta) -> Vec<Op> {
    let mut ops = Vec::new();
    for nd in &delta.node_deltas {
        ops.push(Op::Node {
            id: nd.chitchat_id.clone(),
            last_gc: nd.last_gc_version,
            from: nd.from_version_excluded,
        });
        for kv in &nd.key_values {
            ops.push(Op::Kv {
                key: kv.key.clone(),
                value: kv.value.clone(),
                version: kv.version,
                status: kv.status as u8,
            });
        }
        if nd.key_values.is_empty() && nd.max_version > 0 {
            ops.push(Op::SetMax(nd.max_version));
        }
    }
    ops
}

#[test]
#[ignore]
fn explore_c08() {
    let num: u64 = std::env::var("HUNT_N").ok().and_then(|s| s.parse().ok()).unwrap_or(300);
    for seed in 0..num {
        let mut rng = Rng::new(seed ^ 0xC08);
        let text_mode = rng.below(4);
        let state = build_state(&mut rng, text_mode);
        let digest = gen_peer_digest(&mut rng, &state);
        let mtu = rng.range(100, 65_503) as usize;
        let delta = state.compute_partial_delta_respecting_mtu(&digest, mtu, &HashSet::new());
        let expected_ops = ops_of(&delta);
        // real encoder -> independent decoder
        let msg = ChitchatMessage::SynAck { digest, delta };
        let bytes = msg.serialize_to_vec();
        assert_eq!(bytes.len(), msg.serialized_len());
        let mut cur = &bytes[4..];
        let n = r_u16(&mut cur);
        let mut entries: DigestEntries = Vec::new();
        for _ in 0..n {
            let id = r_id(&mut cur);
            entries.push((id, r_u64(&mut cur), r_u64(&mut cur), r_u64(&mut cur)));
        }
        let ops = r_stream(&mut cur);
        assert!(cur.is_empty());
        assert_eq!(format!("{ops:?}"), format!("{expected_ops:?}"), "seed {seed}");
        // independent encoder -> real decoder
        let bytes2 = enc_synack(&entries, &ops, &mut rng);
        let mut cur2 = &bytes2[..];
        let decoded = ChitchatMessage::deserialize(&mut cur2).unwrap();
        assert!(cur2.is_empty());
        let (ChitchatMessage::SynAck { digest: d1, delta: l1 }, ChitchatMessage::SynAck { digest: d2, delta: l2 }) =
            (&decoded, &msg)
        else {
            panic!()
        };
        assert_eq!(d1, d2, "seed {seed}");
        assert_eq!(l1.node_deltas, l2.node_deltas, "seed {seed}");
        assert_eq!(l1.serialized_len(), bytes2.len() - 4 - d1.serialized_len());
    }
}

// ---------------------------------------------------------------- candidate finding (C09, borderline)

/// C09 candidate: a delta that names the RECEIVER ITSELF is applied to the receiver's own state
/// (`ClusterState::apply_delta` has no "this is me" check, unlike `report_heartbeat`).
///
/// One 61-byte unsolicited ACK `Node{ self id, last_gc 0, from 0 } SetMaxVersion(u64::MAX)` is
/// processed without complaint and pushes the node's OWN max_version to u64::MAX. The node is then
/// dead in the water: every later local write (`set`, `set_with_ttl`, `delete`,
/// `delete_after_ttl`) panics on `self.max_version + 1`
/// (debug: "attempt to add with overflow", release: `assert!(version > self.max_version)`).
#[test]
fn c09_hostile_ack_about_the_receiver_itself_crashes_its_next_local_write() {
    let mut node = make_node(10_001, "c", Duration::from_secs(3_600));
    node.self_node_state().set("k", "v");
    let self_id = node.self_chitchat_id().clone();

    // Hand-built datagram (independent encoder, one uncompressed block).
    let mut ops_bytes = Vec::new();
    w_op(&mut ops_bytes, &Op::Node { id: self_id.clone(), last_gc: 0, from: 0 });
    w_op(&mut ops_bytes, &Op::SetMax(u64::MAX));
    let mut datagram = header(2); // ACK
    datagram.push(2); // uncompressed block
    w_u16(&mut datagram, ops_bytes.len() as u16);
    datagram.extend_from_slice(&ops_bytes);
    datagram.push(0); // no more blocks

    let msg = ChitchatMessage::deserialize(&mut &datagram[..]).expect("the datagram decodes");
    let reply = node.process_message(msg);
    assert!(reply.is_none());

    // The node's own frontier was overwritten by the datagram.
    let own_max_version = node.self_node_state().max_version();
    let outcome = catch_unwind(AssertUnwindSafe(|| {
        node.self_node_state().set("k2", "v2");
    }));
    assert!(
        outcome.is_ok() && own_max_version == 1,
        "C09: one hostile {}-byte ACK naming the receiver itself set the node's OWN max_version to \
         {own_max_version} (was 1) and the node's next local write panicked: {}",
        datagram.len(),
        outcome.is_err()
    );
}

/// Same hole, other face: `Node{ self id, last_gc 1000, from 0 }` with nothing else makes the node
/// reset ITS OWN state: its keys vanish and its own max_version goes from 2 back to 0.
#[test]
fn c09_hostile_ack_about_the_receiver_itself_wipes_its_own_keys() {
    let mut node = make_node(10_001, "c", Duration::from_secs(3_600));
    node.self_node_state().set("k", "v");
    node.self_node_state().set("k2", "v2");
    let self_id = node.self_chitchat_id().clone();
    let mut rng = Rng::new(1);
    let datagram = enc_ack(&[Op::Node { id: self_id, last_gc: 1_000, from: 0 }], &mut rng);
    let msg = ChitchatMessage::deserialize(&mut &datagram[..]).expect("the datagram decodes");
    assert!(node.process_message(msg).is_none());
    assert_eq!(
        (node.self_node_state().max_version(), node.self_node_state().get("k")),
        (2, Some("v")),
        "C09: a hostile ACK naming the receiver itself reset the node's own state (own max_version \
         went backward, own keys lost)"
    );
}

/// Observation (not counted as a property violation): one hostile SYN whose digest gives a live
/// member the heartbeat u64::MAX freezes that member's heartbeat record; the receiver then
/// declares it dead, forgets it, and refuses to learn it again, while still shaking hands with it
/// every 100 ms.
#[tokio::test(start_paused = true)]
#[ignore]
async fn observe_heartbeat_freeze() {
    let grace = Duration::from_secs(3_600);
    let mut r = make_node(10_001, "c", grace);
    let mut x = make_node(10_002, "c", grace);
    let x_id = x.self_chitchat_id().clone();
    for _ in 0..20 {
        handshake(&mut x, &mut r);
        tokio::time::advance(Duration::from_millis(100)).await;
        r.update_nodes_liveness();
    }
    assert!(r.live_nodes().any(|id| id == &x_id));
    let hostile = enc_syn("c", &vec![(x_id.clone(), u64::MAX, 0, 0)]);
    let msg = ChitchatMessage::deserialize(&mut &hostile[..]).unwrap();
    r.process_message(msg);
    let mut dead_at = None;
    let mut gone_at = None;
    for round in 0..600 {
        handshake(&mut x, &mut r);
        tokio::time::advance(Duration::from_millis(100)).await;
        r.update_nodes_liveness();
        if dead_at.is_none() && r.dead_nodes().any(|id| id == &x_id) {
            dead_at = Some(round);
        }
        if gone_at.is_none() && r.node_state(&x_id).is_none() {
            gone_at = Some(round);
        }
    }
    eprintln!("dead after round {dead_at:?}, forgotten after round {gone_at:?}, known at the end: {}",
        r.node_state(&x_id).is_some());
}

/// Sanity check of the slack argument: one key-value of 7-bit random text spanning 4 blocks.
#[test]
#[ignore]
fn observe_seven_bit_slack() {
    let mut rng = Rng::new(7);
    for value_len in [33_000usize, 49_200, 60_000, 65_000, 65_400] {
        let mut state = ClusterState::default();
        let id = ChitchatId::for_local_test(20_000);
        state
            .node_state_mut_or_init(&id)
            .set("k", gen_text(&mut rng, value_len, 3));
        let raw_len = 1 + 27 + 16 + 1 + 3 + 2 + value_len + 9;
        for mtu in [65_503usize, raw_len + 7, raw_len + 4, raw_len, raw_len - 2_000] {
            let mtu = mtu.min(65_503);
            let delta =
                state.compute_partial_delta_respecting_mtu(&Digest::default(), mtu, &HashSet::new());
            let bytes = delta.serialize_to_vec();
            eprintln!(
                "value {value_len} raw {raw_len} mtu {mtu}: kvs {} serialized {}",
                delta.node_deltas.first().map(|nd| nd.key_values.len()).unwrap_or(0),
                bytes.len()
            );
            assert!(bytes.len() <= mtu);
        }
    }
}
