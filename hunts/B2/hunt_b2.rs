//! Bug-hunt demonstrations (B2). Every test in this file is expected to FAIL on the unmodified
//! library: each failure is a violation of one of the properties C03..C06.

use std::time::Duration;

use tokio::sync::watch;

use crate::digest::Digest;
use crate::message::ChitchatMessage;
use crate::{Chitchat, ChitchatConfig, ChitchatId, Heartbeat};

fn new_node(port: u16) -> Chitchat {
    let empty_seeds = watch::channel(Default::default()).1;
    Chitchat::with_chitchat_id_and_seeds(ChitchatConfig::for_test(port), empty_seeds, Vec::new())
}

fn handshake(initiator: &mut Chitchat, peer: &mut Chitchat) {
    let syn = initiator.create_syn_message();
    let syn_ack = peer.process_message(syn).unwrap();
    let ack = initiator.process_message(syn_ack).unwrap();
    assert!(peer.process_message(ack).is_none());
}

/// C06 (finding 1): `delete_after_ttl` on a key that is already deleted brings it back.
///
/// History on the owner: set("k","v"); delete("k"); delete_after_ttl("k").
/// After `delete` every read says the key is absent. `delete_after_ttl` on that absent key must be
/// a no-op ("deleting an absent key is a no-op", "a deleted key is invisible immediately"), but
/// `NodeState::delete_after_ttl` only looks the key up in the raw map (tombstones included) and
/// overwrites the status `Deleted` with `DeleteAfterTtl`, which readers treat as visible. The key
/// comes back to life with the empty value that `delete` left in the tombstone, under a fresh
/// version, and that resurrected entry is then replicated to every peer.
#[tokio::test(start_paused = true)]
async fn c06_delete_after_ttl_resurrects_a_deleted_key() {
    let mut owner = new_node(10_001);
    let owner_id = owner.self_chitchat_id().clone();
    let mut peer = new_node(10_002);

    let state = owner.self_node_state();
    state.set("k", "v");
    state.delete("k");
    assert_eq!(state.get("k"), None, "a deleted key is invisible immediately");
    assert!(!state.contains_key("k"));
    assert_eq!(state.num_key_values(), 0);
    let max_version_before = state.max_version();

    // The key is absent for every reader: marking it for a later deletion has nothing to act on.
    state.delete_after_ttl("k");

    handshake(&mut owner, &mut peer);
    let replica_view = peer
        .node_state(&owner_id)
        .unwrap()
        .get("k")
        .map(str::to_string);

    let state = owner.self_node_state();
    let visible: Vec<(String, String)> = state
        .key_values()
        .map(|(key, value)| (key.to_string(), value.to_string()))
        .collect();
    assert!(
        state.get("k").is_none()
            && !state.contains_key("k")
            && state.num_key_values() == 0
            && state.iter_prefix("").next().is_none()
            && replica_view.is_none(),
        "C06 violated: set(k,v); delete(k); delete_after_ttl(k) made the deleted key visible \
         again: get(k)={:?}, contains_key(k)={}, count={}, visible key-values={:?}, \
         max_version {} -> {}, replica reads {:?}",
        state.get("k"),
        state.contains_key("k"),
        state.num_key_values(),
        visible,
        max_version_before,
        state.max_version(),
        replica_view,
    );
}

/// C06 (finding 3, weaker): deleting a key that is already deleted is not a no-op.
///
/// History on the owner with a grace period of 10s: set("k","v"); delete("k") at t=0;
/// delete("k") again at t=9s; GC pass at t=10s.
/// The key has been absent for every reader since t=0, so the second delete acts on an absent key
/// and must change nothing. Instead it consumes a version and restarts the tombstone clock, so
/// the GC pass that runs one full grace period after the (only effective) deletion keeps the
/// tombstone and does not raise the watermark.
#[tokio::test(start_paused = true)]
async fn c06_deleting_a_deleted_key_is_not_a_noop() {
    let grace_period = Duration::from_secs(10);
    let mut config = ChitchatConfig::for_test(10_001);
    config.marked_for_deletion_grace_period = grace_period;
    let empty_seeds = watch::channel(Default::default()).1;
    let mut owner = Chitchat::with_chitchat_id_and_seeds(config, empty_seeds, Vec::new());

    let state = owner.self_node_state();
    state.set("k", "v"); // version 1
    state.delete("k"); // version 2, t = 0
    let max_version_after_delete = state.max_version();
    tokio::time::advance(Duration::from_secs(9)).await;
    state.delete("k"); // the key is absent: expected no-op
    let max_version_after_second_delete = state.max_version();
    tokio::time::advance(Duration::from_secs(1)).await;
    // One full grace period after the deletion.
    owner.gc_keys_marked_for_deletion();

    let state = owner.self_node_state();
    assert!(
        max_version_after_second_delete == max_version_after_delete
            && state.get_versioned("k").is_none()
            && state.last_gc_version() == 2,
        "C06 violated: delete(k) on an already deleted (absent) key is not a no-op: max_version \
         {} -> {}, and the GC pass one grace period after the deletion left tombstone {:?} \
         (watermark {}, expected 2)",
        max_version_after_delete,
        max_version_after_second_delete,
        state.get_versioned("k"),
        state.last_gc_version(),
    );
}

/// C04 (finding 2): a SYN from an honest peer aborts the receiving node once the receiver's own
/// digest gets within ~100 bytes of the datagram size.
///
/// `process_message` budgets the SYN-ACK delta as
/// `MAX_UDP_DATAGRAM_PAYLOAD_SIZE - 4 - self_digest.serialized_len()` and hands the result to
/// `DeltaSerializer::with_mtu`, which asserts `mtu >= 100`. With members whose digest entries add
/// up to more than 65_403 bytes the assertion fails (and above 65_503 bytes the subtraction itself
/// overflows), i.e. processing a well-formed SYN that an honest peer was able to send in a single
/// datagram panics inside `process_message` and kills the gossip server task.
///
/// Here the cluster has 1_283 honest members with the default test ids ("node-<port>", 51 bytes
/// of digest each): the SYN is 65_456 bytes long, it fits in a datagram and decodes fine.
#[tokio::test(start_paused = true)]
async fn c04_syn_from_honest_peer_aborts_node_with_large_digest() {
    use crate::serialize::{Deserializable, Serializable};
    use crate::MAX_UDP_DATAGRAM_PAYLOAD_SIZE;

    let mut receiver = new_node(10_001);
    // The digest an honest member of a 1_283 member cluster sends.
    let mut digest = Digest::default();
    for port in 10_001u16..10_001 + 1_283 {
        digest.add_node(ChitchatId::for_local_test(port), Heartbeat(1), 0, 0);
    }
    let syn = ChitchatMessage::Syn {
        cluster_id: "default-cluster".to_string(),
        digest,
    };
    // The SYN is a legal datagram: it fits and round-trips through the wire format.
    let syn_bytes = syn.serialize_to_vec();
    assert!(syn_bytes.len() <= MAX_UDP_DATAGRAM_PAYLOAD_SIZE);
    let syn = ChitchatMessage::deserialize(&mut &syn_bytes[..]).unwrap();

    let outcome = std::panic::catch_unwind(std::panic::AssertUnwindSafe(|| {
        receiver.process_message(syn)
    }));
    assert!(
        outcome.is_ok(),
        "C04 violated: processing a {}-byte SYN from an honest peer aborted the node (panic in \
         process_message while budgeting the SYN-ACK delta)",
        syn_bytes.len()
    );
}
