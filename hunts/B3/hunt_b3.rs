//! Bug hunt B3 (properties C07 / C08 / C09). Every test in this file FAILS on the unmodified
//! library. See /tmp/wtB-B3/NOTES.md.
use std::collections::HashSet;
use std::net::{Ipv6Addr, SocketAddr, SocketAddrV6};
use std::panic::{AssertUnwindSafe, catch_unwind};

use tokio::sync::watch;

use crate::digest::Digest;
use crate::serialize::{Deserializable, Serializable};
use crate::{
    Chitchat, ChitchatConfig, ChitchatId, ChitchatMessage, Heartbeat,
    MAX_UDP_DATAGRAM_PAYLOAD_SIZE,
};

fn new_node(config: ChitchatConfig) -> Chitchat {
    let (_tx, rx) = watch::channel(HashSet::<SocketAddr>::new());
    Chitchat::with_chitchat_id_and_seeds(config, rx, Vec::new())
}

/// What the UDP transport does to a message: encode on one side, decode on the other.
fn over_the_wire(msg: &ChitchatMessage) -> ChitchatMessage {
    let bytes = msg.serialize_to_vec();
    assert_eq!(bytes.len(), msg.serialized_len());
    assert!(bytes.len() <= MAX_UDP_DATAGRAM_PAYLOAD_SIZE);
    let mut cursor = &bytes[..];
    let decoded = ChitchatMessage::deserialize(&mut cursor).unwrap();
    assert!(cursor.is_empty());
    decoded
}

fn link_local_id() -> ChitchatId {
    // fe80::1%2 - a link-local address is only usable with its scope id.
    let addr = SocketAddr::V6(SocketAddrV6::new(
        Ipv6Addr::new(0xfe80, 0, 0, 0, 0, 0, 0, 1),
        7280,
        0,
        2,
    ));
    ChitchatId::new("node-a".to_string(), 1, addr)
}

/// F1 / C08. The wire format of a socket address is `ip version, ip bytes, port`: the scope id
/// and the flow info of an IPv6 socket address are dropped, although they are part of
/// `ChitchatId`'s `Eq` / `Ord` / `Hash`. A SYN emitted by a node whose advertise address carries
/// a scope id does not decode back to an equal message.
#[test]
fn hunt_b3_c08_syn_with_scoped_ipv6_address_does_not_round_trip() {
    let mut digest = Digest::default();
    digest.add_node(link_local_id(), Heartbeat(1), 0, 0);
    let syn = ChitchatMessage::Syn {
        cluster_id: "default-cluster".to_string(),
        digest,
    };
    let decoded = over_the_wire(&syn);
    assert_eq!(
        decoded, syn,
        "C08 violated: a SYN a node can emit does not decode back to an equal message"
    );
}

/// F1 / C08, consequence with two honest nodes and no fault at all: after one handshake and one
/// more SYN, node A lists a second member that is itself minus the scope id.
#[test]
fn hunt_b3_c08_scoped_ipv6_node_learns_itself_as_a_foreign_member() {
    let id_a = link_local_id();
    let mut config_a = ChitchatConfig::for_test(10_001);
    config_a.chitchat_id = id_a.clone();
    let mut node_a = new_node(config_a);
    node_a.self_node_state().set("k", "v");
    let mut node_b = new_node(ChitchatConfig::for_test(10_002));

    // A -> B -> A -> B, every message going through encode / decode like on UDP.
    let syn = over_the_wire(&node_a.create_syn_message());
    let syn_ack = over_the_wire(&node_b.process_message(syn).unwrap());
    let ack = over_the_wire(&node_a.process_message(syn_ack).unwrap());
    assert!(node_b.process_message(ack).is_none());
    // B now gossips back what it learnt.
    let syn = over_the_wire(&node_b.create_syn_message());
    let _syn_ack = node_a.process_message(syn).unwrap();

    let members_of_a: Vec<&ChitchatId> = node_a.node_states().keys().collect();
    assert_eq!(
        members_of_a.len(),
        2,
        "C08 violated (lossy address encoding): A knows {members_of_a:?}, i.e. itself twice \
         (with and without scope id) plus B"
    );
}

/// F2 / C09. A single decodable SYN (right cluster id) announcing many members. After it, the
/// members known by the receiver still fit a digest in one datagram - its own SYN is 65,498
/// bytes - but fewer than 100 bytes are left for the delta and `DeltaSerializer::with_mtu`
/// asserts `mtu >= 100` (delta.rs), inside `process_message`. In the server this kills the gossip
/// task.
#[test]
fn hunt_b3_c09_syn_leaving_less_than_100_bytes_panics_the_receiver() {
    let mut node = new_node(ChitchatConfig::for_test(10_001));
    // Each digest entry: 2 + len(node_id) + 8 (generation) + 7 (ipv4, port) + 24 = 48 bytes.
    let mut digest = Digest::default();
    let mut i = 0u32;
    while digest.serialized_len() <= 65_380 {
        let addr: SocketAddr = ([10, 0, (i >> 8) as u8, i as u8], 7000).into();
        digest.add_node(ChitchatId::new(format!("m{i:06}"), 0, addr), Heartbeat(1), 0, 0);
        i += 1;
    }
    let syn = ChitchatMessage::Syn {
        cluster_id: "default-cluster".to_string(),
        digest,
    };
    let datagram = syn.serialize_to_vec();
    assert!(datagram.len() <= MAX_UDP_DATAGRAM_PAYLOAD_SIZE);
    let decoded = ChitchatMessage::deserialize(&mut &datagram[..]).unwrap();

    let outcome = catch_unwind(AssertUnwindSafe(|| node.process_message(decoded)));

    // The precondition of C09 holds after the message: the whole SYN of the node (header,
    // digest of all the members it knows, cluster id) still fits one datagram.
    let own_syn_len = node.create_syn_message().serialized_len();
    assert!(own_syn_len <= MAX_UDP_DATAGRAM_PAYLOAD_SIZE);
    assert!(
        outcome.is_ok(),
        "C09 violated: processing a decodable SYN panicked although the node's own SYN \
         ({own_syn_len} bytes) still fits one datagram"
    );
}

fn lcg(state: &mut u64) -> u64 {
    *state = state
        .wrapping_mul(6364136223846793005)
        .wrapping_add(1442695040888963407);
    *state >> 33
}

/// Valid UTF-8 text mixing 1, 2, 3 and 4 byte characters (zstd stores it raw: its byte histogram
/// is close to uniform over the 243 byte values UTF-8 can use).
fn multi_script_text(num_bytes: usize, seed: u64) -> String {
    const WEIGHTS: [u64; 4] = [128, 30, 16, 5];
    let mut state = seed;
    let mut out = String::with_capacity(num_bytes + 4);
    while out.len() < num_bytes {
        let remaining = num_bytes - out.len();
        let mut pick = lcg(&mut state) % WEIGHTS.iter().sum::<u64>();
        let mut class = 0;
        while pick >= WEIGHTS[class] {
            pick -= WEIGHTS[class];
            class += 1;
        }
        let class = class.min(remaining - 1);
        let c = loop {
            let r = lcg(&mut state) as u32;
            let code_point = match class {
                0 => r % 0x80,
                1 => 0x80 + r % (0x800 - 0x80),
                2 => 0x800 + r % (0x10000 - 0x800),
                _ => 0x10000 + r % (0x110000 - 0x10000),
            };
            if let Some(c) = char::from_u32(code_point) {
                break c;
            }
        };
        out.push(c);
    }
    out
}

/// F3 / C07 size bound - OUTSIDE the stated quantifier (needs non 7-bit UTF-8 content), kept as
/// a secondary finding. `CompressedStreamWriter::serialized_len_upperbound_after` budgets the
/// header of at most one extra block, but `append` cuts one item longer than 2 x 16,384 bytes
/// into 3 or 4 blocks of 3 header bytes each. With a value zstd cannot shrink, the SYN-ACK is
/// up to 6 bytes longer than a datagram.
#[test]
fn hunt_b3_c07_one_large_incompressible_value_overflows_the_datagram() {
    let mut node = new_node(ChitchatConfig::for_test(10_001));
    node.self_node_state()
        .set(multi_script_text(385, 5), multi_script_text(65_000, 11));
    let syn = ChitchatMessage::Syn {
        cluster_id: "default-cluster".to_string(),
        digest: Digest::default(),
    };
    let syn_ack = node.process_message(syn).unwrap();
    let ChitchatMessage::SynAck { delta, .. } = &syn_ack else {
        panic!("expected a SYN-ACK");
    };
    assert_eq!(delta.num_tuples(), 1);
    let datagram = syn_ack.serialize_to_vec();
    assert!(
        datagram.len() <= MAX_UDP_DATAGRAM_PAYLOAD_SIZE,
        "C07 violated (non 7-bit content): the SYN-ACK is {} bytes, a datagram holds {}",
        datagram.len(),
        MAX_UDP_DATAGRAM_PAYLOAD_SIZE
    );
}
