//! Bug hunt B6 (properties C17 / C19). See NOTES.md at the root of the worktree.
//!
//! Both tests fail on the unmodified library.
//!
//! * `c19_one_undecodable_datagram_stalls_gossip_rounds` (main finding): a single 65 KB datagram
//!   that the decoder ends up refusing keeps the gossip loop busy for seconds and makes it
//!   allocate about 2 GB. No round, no heartbeat, no answer during that time.
//! * `c19_reply_that_cannot_fit_terminates_the_loop` (secondary, arguable): a legal Syn coming
//!   from a large cluster makes the would-be reply oversized; instead of a failed send the loop
//!   dies.

use std::net::SocketAddr;
use std::time::Duration;

use tokio::time::{Instant, timeout};

use crate::digest::Digest;
use crate::serialize::{Deserializable, Serializable};
use crate::transport::{ChannelTransport, Transport, UdpTransport};
use crate::{
    ChitchatConfig, ChitchatId, ChitchatMessage, FailureDetectorConfig, Heartbeat,
    MAX_UDP_DATAGRAM_PAYLOAD_SIZE, spawn_chitchat,
};

const GOSSIP_INTERVAL: Duration = Duration::from_millis(100);

/// Builds one datagram (at most 65_507 bytes, the largest UDP payload) that the decoder refuses,
/// but only after inflating it.
///
/// Layout: the 4 byte header of an `Ack`, then as many "compressed" blocks as fit. Every block is
/// the same tiny zstd frame that decompresses to 65_535 bytes of `0x02`. Read as delta
/// operations, `0x02 0x02 ... 0x02` is a run of 9 byte `SetMaxVersion` operations
/// (`deserialize_stream` materializes all of them, ~88 bytes each, before anything looks at
/// them). The run does not stop on an operation boundary and no `Node` operation comes first, so
/// the delta is refused and the datagram is dropped as `invalid-chitchat-payload`.
fn inflating_datagram() -> Vec<u8> {
    let block_plain = vec![2u8; u16::MAX as usize];
    let block_zstd = zstd::bulk::compress(&block_plain, 19).unwrap();
    let mut datagram: Vec<u8> = Vec::new();
    datagram.extend(45_139u16.to_le_bytes()); // magic number
    datagram.push(0); // protocol version
    datagram.push(2); // message type: Ack
    while datagram.len() + 3 + block_zstd.len() + 1 <= MAX_UDP_DATAGRAM_PAYLOAD_SIZE {
        datagram.push(1); // block type: compressed
        datagram.extend((block_zstd.len() as u16).to_le_bytes());
        datagram.extend(&block_zstd);
    }
    datagram.push(0); // block type: no more blocks
    datagram
}

/// Peak resident set size of this process, in MB (Linux only, 0 elsewhere).
fn peak_rss_mb() -> u64 {
    std::fs::read_to_string("/proc/self/status")
        .ok()
        .and_then(|status| {
            let line = status.lines().find(|line| line.starts_with("VmHWM:"))?;
            line.split_whitespace().nth(1)?.parse::<u64>().ok()
        })
        .map(|kb| kb / 1024)
        .unwrap_or(0)
}

/// C19, real UDP transport over loopback, garbage datagram.
///
/// History: a node gossips every 100 ms to its only seed (a plain UDP socket held by the test).
/// Someone sends the node ONE datagram of 65_499 bytes. The datagram is not a chitchat message
/// (the decoder returns an error for it). Expected: the datagram is dropped and rounds go on at
/// their pace. Observed: no round for several seconds.
#[tokio::test(flavor = "multi_thread", worker_threads = 2)]
async fn c19_one_undecodable_datagram_stalls_gossip_rounds() {
    let datagram = inflating_datagram();
    assert!(datagram.len() <= MAX_UDP_DATAGRAM_PAYLOAD_SIZE);

    // The seed: it only counts the Syn messages it receives, one per gossip round.
    let seed_socket = tokio::net::UdpSocket::bind("127.0.0.1:0").await.unwrap();
    let seed_addr = seed_socket.local_addr().unwrap();

    let config = ChitchatConfig {
        chitchat_id: ChitchatId::new("b6".to_string(), 0, ([127, 0, 0, 1], 9).into()),
        cluster_id: "default-cluster".to_string(),
        gossip_interval: GOSSIP_INTERVAL,
        listen_addr: ([127, 0, 0, 1], 0).into(),
        seed_nodes: vec![seed_addr.to_string()],
        failure_detector_config: FailureDetectorConfig::default(),
        marked_for_deletion_grace_period: Duration::from_secs(3_600),
        catchup_callback: None,
        extra_liveness_predicate: None,
    };
    let handle = spawn_chitchat(config, Vec::new(), &UdpTransport)
        .await
        .unwrap();

    // Baseline: rounds reach the seed. The source address of the Syn is the node's socket.
    let mut buf = vec![0u8; MAX_UDP_DATAGRAM_PAYLOAD_SIZE];
    let mut node_addr: Option<SocketAddr> = None;
    for _ in 0..5 {
        let (len, from_addr) = timeout(Duration::from_secs(1), seed_socket.recv_from(&mut buf))
            .await
            .expect("baseline: a round is late before any fault")
            .unwrap();
        let message = ChitchatMessage::deserialize(&mut &buf[..len]).unwrap();
        assert!(matches!(message, ChitchatMessage::Syn { .. }));
        node_addr = Some(from_addr);
    }
    let node_addr = node_addr.unwrap();
    let peak_rss_before_mb = peak_rss_mb();

    // The fault: one datagram.
    seed_socket.send_to(&datagram, node_addr).await.unwrap();

    // Longest silence between two rounds over the next 8 seconds.
    let observation_end = Instant::now() + Duration::from_secs(8);
    let mut last_round = Instant::now();
    let mut longest_silence = Duration::ZERO;
    loop {
        let now = Instant::now();
        if now >= observation_end {
            longest_silence = longest_silence.max(now - last_round);
            break;
        }
        if timeout(observation_end - now, seed_socket.recv_from(&mut buf))
            .await
            .is_ok()
        {
            let now = Instant::now();
            longest_silence = longest_silence.max(now - last_round);
            last_round = now;
        }
    }
    let peak_rss_after_mb = peak_rss_mb();
    let _ = timeout(Duration::from_secs(30), handle.shutdown()).await;

    // The datagram is undecodable (checked last: decoding it here is as costly as in the node).
    assert!(ChitchatMessage::deserialize(&mut &datagram[..]).is_err());

    assert!(
        longest_silence <= 10 * GOSSIP_INTERVAL,
        "C19 violated: one undecodable datagram of {} bytes stalled the gossip loop: no round \
         (no heartbeat, no answer) for {:?} with a gossip interval of {:?}; peak RSS of the \
         process went from {} MB to {} MB",
        datagram.len(),
        longest_silence,
        GOSSIP_INTERVAL,
        peak_rss_before_mb,
        peak_rss_after_mb,
    );
}

/// C19, in-process transport, paused clock, one `recv valid message` event.
///
/// History: a node that knows nobody receives a Syn from an honest peer that knows 1_309 members.
/// The Syn is a legal datagram (65_473 bytes <= 65_507). The reply would carry the node's own
/// digest, which is one entry longer (65_503 bytes), so no reply can fit in a datagram. Expected
/// by C19: at worst a failed (oversized) send, and the loop goes on. Observed: the loop
/// terminates (`assert!(mtu >= 100)` in `DeltaSerializer::with_mtu`; with one more member,
/// `attempt to subtract with overflow` in `process_message`).
#[tokio::test(start_paused = true)]
async fn c19_reply_that_cannot_fit_terminates_the_loop() {
    let transport = ChannelTransport::with_mtu(MAX_UDP_DATAGRAM_PAYLOAD_SIZE);
    let node_config = ChitchatConfig::for_test(10_001);
    let node_addr = node_config.chitchat_id.gossip_advertise_addr;
    let peer_addr: SocketAddr = ([127, 0, 0, 1], 10_002).into();
    let mut peer_socket = transport.open(peer_addr).await.unwrap();
    let handle = spawn_chitchat(node_config, Vec::new(), &transport)
        .await
        .unwrap();

    let mut digest = Digest::default();
    for i in 0..1_309u32 {
        let member_addr: SocketAddr = ([10, 0, (i / 256) as u8, (i % 256) as u8], 10_000).into();
        let member = ChitchatId::new(format!("node-{i:04}"), 0, member_addr);
        digest.add_node(member, Heartbeat(1), 0, 0);
    }
    let syn = ChitchatMessage::Syn {
        cluster_id: "default-cluster".to_string(),
        digest,
    };
    assert!(syn.serialized_len() <= MAX_UDP_DATAGRAM_PAYLOAD_SIZE);
    peer_socket.send(node_addr, syn).await.unwrap();

    let termination = timeout(Duration::from_secs(5), handle.termination_watcher()).await;
    assert!(
        termination.is_err(),
        "C19 violated: a legal Syn whose reply cannot fit in a datagram terminated the gossip \
         loop instead of producing a failed send: {termination:?}"
    );
}
