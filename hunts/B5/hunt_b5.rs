//! Bug hunt B5 (properties C15, C16, C18, C20). Every test below FAILS on the unmodified
//! library. See NOTES.md at the root of the worktree for the histories and the confidence
//! attached to each finding.

use std::collections::HashSet;
use std::panic::{AssertUnwindSafe, catch_unwind};
use std::sync::{Arc, Mutex};
use std::time::Duration;

use tokio::sync::watch;

use crate::types::DeletionStatus;
use crate::{Chitchat, ChitchatConfig, ChitchatId, VersionedValue};

fn node(port: u16, generation_id: u64, cluster_id: &str) -> Chitchat {
    let mut config = ChitchatConfig::for_test(port);
    config.cluster_id = cluster_id.to_string();
    config.chitchat_id.generation_id = generation_id;
    let (_seed_addrs_tx, seed_addrs_rx) = watch::channel(HashSet::new());
    Chitchat::with_chitchat_id_and_seeds(config, seed_addrs_rx, Vec::new())
}

fn set_value(value: &str, version: u64) -> VersionedValue {
    VersionedValue {
        value: value.to_string(),
        version,
        status: DeletionStatus::Set,
    }
}

fn handshake(initiator: &mut Chitchat, responder: &mut Chitchat) {
    let syn = initiator.create_syn_message();
    let syn_ack = responder.process_message(syn).unwrap();
    let ack = initiator.process_message(syn_ack).unwrap();
    assert!(responder.process_message(ack).is_none());
}

/// F1 (C18). A supplied state in which two keys carry the same version is adopted as is
/// (allowed by the quantifier: "any key set, versions ... consistent or not"). The copy is
/// now a poison pill: the next SYN from a peer that lacks the member makes this node panic
/// while it builds its reply (`DeltaSerializer::try_add_op` asserts that versions are strictly
/// increasing), i.e. the catch-up corrupted the node and the following gossip step panics.
#[tokio::test(start_paused = true)]
async fn f1_c18_catchup_with_equal_versions_makes_next_gossip_step_panic() {
    let mut caught_up_node = node(10_001, 0, "cluster");
    let mut peer = node(10_002, 0, "cluster");
    let member = ChitchatId::for_local_test(10_003);
    caught_up_node.reset_node_state_if_update(
        &member,
        [
            ("a".to_string(), set_value("1", 5)),
            ("b".to_string(), set_value("2", 5)),
        ]
        .into_iter(),
        5,
        0,
    );
    let gossip_step = catch_unwind(AssertUnwindSafe(|| {
        handshake(&mut peer, &mut caught_up_node);
    }));
    assert!(
        gossip_step.is_ok(),
        "C18 violated: after a catch-up with an inconsistent supplied state (two keys at version \
         5) the node panics when it answers the next SYN"
    );
}

/// F2 (C18). A catch-up that is refused must leave the copy unchanged. For an absent copy and a
/// supplied max version of 0 the call is refused ("already up to date") but the copy has
/// already been created: the member now exists (empty, unknown to the failure detector) and
/// is advertised in this node's digests, although its key set was not replaced by the
/// supplied one.
#[tokio::test(start_paused = true)]
async fn f2_c18_refused_catchup_creates_the_member() {
    let mut caught_up_node = node(10_001, 0, "cluster");
    let member = ChitchatId::for_local_test(10_003);
    assert!(caught_up_node.node_state(&member).is_none());
    caught_up_node.reset_node_state_if_update(
        &member,
        [("a".to_string(), set_value("1", 5))].into_iter(),
        0,
        0,
    );
    let copy = caught_up_node.node_state(&member);
    let unchanged = copy.is_none();
    let replaced = copy.is_some_and(|node_state| node_state.get("a") == Some("1"));
    assert!(
        unchanged || replaced,
        "C18 violated: the catch-up neither left the (absent) copy unchanged nor installed the \
         supplied key set: {copy:?}"
    );
}

/// F3 (C16). SYN-ACK and ACK carry no cluster id and are processed unconditionally. A SYN-ACK
/// of cluster A that is still in flight when the address of its recipient is taken over by a
/// node of cluster B ("clusters that share addresses") installs the members, heartbeats and
/// key-values of cluster A into the node of cluster B, which then gossips them to the rest
/// of cluster B.
#[tokio::test(start_paused = true)]
async fn f3_c16_syn_ack_is_accepted_by_a_node_of_another_cluster() {
    let a1 = node(10_001, 0, "A");
    let mut a2 = node(10_002, 0, "A");
    a2.self_node_state().set("secret", "of-A");
    let syn = a1.create_syn_message();
    let syn_ack = a2.process_message(syn).unwrap();
    // a1 stops; a node of cluster B starts on the same address with a new generation. The
    // SYN-ACK above is delivered late.
    drop(a1);
    let mut b1 = node(10_001, 1, "B");
    let _ = b1.process_message(syn_ack);
    assert!(
        b1.node_state(a2.self_chitchat_id()).is_none(),
        "C16 violated: a member of cluster A and its data leaked into cluster B: {:?}",
        b1.node_state(a2.self_chitchat_id())
    );
}

/// F4 (C15, lower confidence). When gossip resets a copy, every surviving key is replayed to
/// the listeners although neither its value nor its version changed: the listener is called
/// for a key that was not set and whose value is not newer.
#[tokio::test(start_paused = true)]
async fn f4_c15_gossip_reset_replays_unchanged_keys_to_listeners() {
    let mut owner = node(10_001, 0, "cluster");
    let mut replica = node(10_002, 0, "cluster");
    owner.self_node_state().set("k", "v");
    owner.self_node_state().set("tmp", "x");
    handshake(&mut replica, &mut owner);
    let owner_id = owner.self_chitchat_id().clone();
    assert_eq!(replica.node_state(&owner_id).unwrap().get("k"), Some("v"));

    let calls: Arc<Mutex<Vec<(String, String)>>> = Default::default();
    let calls_clone = calls.clone();
    replica
        .subscribe_event("k", move |event| {
            let call = (event.key.to_string(), event.value.to_string());
            calls_clone.lock().unwrap().push(call);
        })
        .forever();

    // The owner deletes another key and garbage collects the tombstone before the replica
    // hears about it: the next handshake resets the replica's copy.
    owner.self_node_state().delete("tmp");
    tokio::time::advance(Duration::from_secs(20_000)).await;
    owner.gc_keys_marked_for_deletion();
    handshake(&mut replica, &mut owner);

    let copy = replica.node_state(&owner_id).unwrap();
    assert_eq!(copy.get("k"), Some("v"));
    assert_eq!(copy.get_versioned("k").unwrap().version, 1);
    assert!(
        calls.lock().unwrap().is_empty(),
        "C15 violated: listener called for key `k` whose value and version did not change: {:?}",
        calls.lock().unwrap()
    );
}
