//! Hunt D6: the real server task (C17 / C19) on a scripted in-process transport.
#![allow(dead_code)]

use std::collections::{HashSet, VecDeque};
use std::net::SocketAddr;
use std::sync::{Arc, Mutex};
use std::time::Duration;

use async_trait::async_trait;
use tokio::sync::mpsc::{UnboundedReceiver, UnboundedSender, unbounded_channel};
use tokio::sync::watch;
use tokio::time::Instant;

use crate::serialize::{Deserializable, Serializable};
use crate::server::spawn_chitchat;
use crate::transport::{Socket, Transport};
use crate::{Chitchat, ChitchatConfig, ChitchatId, ChitchatMessage, FailureDetectorConfig};

#[derive(Clone, Copy, Debug, PartialEq, Eq)]
enum SendOutcome {
    Ok,
    Err,
    DelayOk(u64),
    DelayErr(u64),
}

enum RecvEvent {
    Msg(SocketAddr, Vec<u8>),
    Fatal(String),
}

#[derive(Debug, Clone)]
struct SendRecord {
    at: Instant,
    to: SocketAddr,
    kind: &'static str,
    outcome: SendOutcome,
}

#[derive(Default)]
struct Shared {
    send_script: VecDeque<SendOutcome>,
    sends: Vec<SendRecord>,
    last_syn: Option<Vec<u8>>,
    last_synack: Option<Vec<u8>>,
}

#[derive(Clone)]
struct ScriptTransport {
    shared: Arc<Mutex<Shared>>,
    rx_slot: Arc<Mutex<Option<UnboundedReceiver<RecvEvent>>>>,
}

struct ScriptSocket {
    shared: Arc<Mutex<Shared>>,
    rx: UnboundedReceiver<RecvEvent>,
}

#[async_trait]
impl Transport for ScriptTransport {
    async fn open(&self, _listen_addr: SocketAddr) -> anyhow::Result<Box<dyn Socket>> {
        let rx = self.rx_slot.lock().unwrap().take().unwrap();
        Ok(Box::new(ScriptSocket {
            shared: self.shared.clone(),
            rx,
        }))
    }
}

fn kind_of(msg: &ChitchatMessage) -> &'static str {
    match msg {
        ChitchatMessage::Syn { .. } => "syn",
        ChitchatMessage::SynAck { .. } => "synack",
        ChitchatMessage::Ack { .. } => "ack",
        ChitchatMessage::BadCluster => "badcluster",
        ChitchatMessage::PanicForTest => "panic",
    }
}

#[async_trait]
impl Socket for ScriptSocket {
    async fn send(&mut self, to: SocketAddr, msg: ChitchatMessage) -> anyhow::Result<()> {
        // every message goes through the wire format
        let bytes = msg.serialize_to_vec();
        let _ = ChitchatMessage::deserialize(&mut &bytes[..]).unwrap();
        let outcome = {
            let mut shared = self.shared.lock().unwrap();
            let outcome = shared.send_script.pop_front().unwrap_or(SendOutcome::Ok);
            match kind_of(&msg) {
                "syn" => shared.last_syn = Some(bytes.clone()),
                "synack" => shared.last_synack = Some(bytes.clone()),
                _ => {}
            }
            shared.sends.push(SendRecord {
                at: Instant::now(),
                to,
                kind: kind_of(&msg),
                outcome,
            });
            outcome
        };
        match outcome {
            SendOutcome::Ok => Ok(()),
            SendOutcome::Err => anyhow::bail!("scripted send error"),
            SendOutcome::DelayOk(ms) => {
                tokio::time::sleep(Duration::from_millis(ms)).await;
                Ok(())
            }
            SendOutcome::DelayErr(ms) => {
                tokio::time::sleep(Duration::from_millis(ms)).await;
                anyhow::bail!("scripted slow send error")
            }
        }
    }

    async fn recv(&mut self) -> anyhow::Result<(SocketAddr, ChitchatMessage)> {
        loop {
            match self.rx.recv().await {
                Some(RecvEvent::Msg(from, bytes)) => {
                    match ChitchatMessage::deserialize(&mut &bytes[..]) {
                        Ok(msg) => return Ok((from, msg)),
                        Err(_) => continue,
                    }
                }
                Some(RecvEvent::Fatal(text)) => anyhow::bail!(text),
                None => std::future::pending::<()>().await,
            }
        }
    }
}

const INTERVAL_MS: u64 = 50;

fn config(port: u16, seed: SocketAddr) -> ChitchatConfig {
    let chitchat_id = ChitchatId::for_local_test(port);
    ChitchatConfig {
        listen_addr: chitchat_id.gossip_advertise_addr,
        chitchat_id,
        cluster_id: "default-cluster".to_string(),
        gossip_interval: Duration::from_millis(INTERVAL_MS),
        seed_nodes: vec![seed.to_string()],
        failure_detector_config: FailureDetectorConfig::default(),
        marked_for_deletion_grace_period: Duration::from_secs(10_000),
        catchup_callback: None,
        extra_liveness_predicate: None,
    }
}

#[derive(Clone, Copy, Debug, PartialEq, Eq)]
enum Ev {
    Send(SendOutcome),
    RecvValid,
    RecvReply(bool),
    RecvBadCluster,
    RecvGarbage,
    RecvFatal,
    Delay(u64),
    Shutdown,
    Lock(u64),
}

struct Lcg(u64);
impl Lcg {
    fn next(&mut self, n: u64) -> u64 {
        self.0 = self
            .0
            .wrapping_mul(6364136223846793005)
            .wrapping_add(1442695040888963407);
        (self.0 >> 33) % n
    }
}

fn gen_script(rng: &mut Lcg) -> Vec<Ev> {
    let len = 1 + rng.next(12) as usize;
    let mut script = Vec::new();
    let special_pos = rng.next(len as u64 + 4) as usize;
    for i in 0..len {
        if i == special_pos {
            if rng.next(2) == 0 {
                script.push(Ev::Shutdown);
            } else {
                script.push(Ev::Lock([0, 10, 50, 170][rng.next(4) as usize]));
            }
            continue;
        }
        let ev = match rng.next(9) {
            0 => Ev::Send(SendOutcome::Ok),
            1 => Ev::Send(SendOutcome::Err),
            2 => Ev::Send(SendOutcome::DelayOk([10, 50, 120, 400][rng.next(4) as usize])),
            3 => Ev::Send(SendOutcome::DelayErr([10, 50, 120, 400][rng.next(4) as usize])),
            4 => Ev::RecvValid,
            5 => match rng.next(4) {
                0 => Ev::RecvValid,
                1 => Ev::RecvBadCluster,
                _ => Ev::RecvReply(rng.next(2) == 0),
            },
            6 => Ev::RecvGarbage,
            7 => {
                if rng.next(3) == 0 {
                    Ev::RecvFatal
                } else {
                    Ev::Delay(25)
                }
            }
            _ => Ev::Delay([0, 10, 50, 75, 130][rng.next(5) as usize]),
        };
        script.push(ev);
    }
    script
}

async fn run_script(script: &[Ev]) -> Result<(), String> {
    let start = Instant::now();
    let peer_addr: SocketAddr = ([127, 0, 0, 1], 20_002u16).into();
    let (tx, rx): (UnboundedSender<RecvEvent>, _) = unbounded_channel();
    let shared = Arc::new(Mutex::new(Shared::default()));
    let transport = ScriptTransport {
        shared: shared.clone(),
        rx_slot: Arc::new(Mutex::new(Some(rx))),
    };
    let handle = spawn_chitchat(config(20_001, peer_addr), Vec::new(), &transport)
        .await
        .unwrap();
    let watcher = handle.termination_watcher();
    let chitchat_arc = handle.chitchat();
    let mut handle_opt = Some(handle);
    // let the server task start (its interval is created at its first poll)
    tokio::time::sleep(Duration::from_millis(1)).await;

    // the fake peer is a real Chitchat instance
    let (_seed_tx, seed_rx) = watch::channel(HashSet::new());
    let mut peer = Chitchat::with_chitchat_id_and_seeds(
        config(20_002, peer_addr),
        seed_rx,
        vec![("k".to_string(), "v".to_string())],
    );

    let mut valid_syns = 0u64;
    let mut other_msgs = 0u64;
    let mut rng_local = Lcg(script.len() as u64 * 77 + 5);
    let mut fatal_at: Option<Instant> = None;
    let mut shutdown_at: Option<Instant> = None;
    let mut shutdown_join: Option<tokio::task::JoinHandle<Result<(), String>>> = None;

    for ev in script {
        match *ev {
            Ev::Send(outcome) => shared.lock().unwrap().send_script.push_back(outcome),
            Ev::RecvValid => {
                if fatal_at.is_none() && shutdown_at.is_none() {
                    valid_syns += 1;
                }
                peer.update_self_heartbeat();
                let syn = peer.create_syn_message();
                let _ = tx.send(RecvEvent::Msg(peer_addr, syn.serialize_to_vec()));
            }
            Ev::RecvBadCluster => {
                if fatal_at.is_none() && shutdown_at.is_none() {
                    other_msgs += 1;
                }
                let _ = tx.send(RecvEvent::Msg(
                    peer_addr,
                    ChitchatMessage::BadCluster.serialize_to_vec(),
                ));
            }
            Ev::RecvReply(duplicate) => {
                // the peer answers the last SYN (SYN-ACK) and the last SYN-ACK (ACK) it was sent,
                // possibly stale, possibly twice
                let (last_syn, last_synack) = {
                    let shared = shared.lock().unwrap();
                    (shared.last_syn.clone(), shared.last_synack.clone())
                };
                for bytes in [last_syn, last_synack].into_iter().flatten() {
                    let msg = ChitchatMessage::deserialize(&mut &bytes[..]).unwrap();
                    if let Some(reply) = peer.process_message(msg) {
                        let reply_bytes = reply.serialize_to_vec();
                        for _ in 0..(1 + duplicate as usize) {
                            if fatal_at.is_none() && shutdown_at.is_none() {
                                other_msgs += 1;
                            }
                            let _ = tx.send(RecvEvent::Msg(peer_addr, reply_bytes.clone()));
                        }
                    }
                }
                if rng_local.next(3) == 0 {
                    peer.self_node_state().set(format!("k{}", rng_local.next(4)), "x");
                } else if rng_local.next(3) == 0 {
                    peer.self_node_state().delete(&format!("k{}", rng_local.next(4)));
                }
            }
            Ev::RecvGarbage => {
                let _ = tx.send(RecvEvent::Msg(peer_addr, b"junk-junk".to_vec()));
            }
            Ev::RecvFatal => {
                if fatal_at.is_none() {
                    fatal_at = Some(Instant::now());
                }
                let _ = tx.send(RecvEvent::Fatal("scripted fatal recv".to_string()));
            }
            Ev::Delay(ms) => tokio::time::sleep(Duration::from_millis(ms)).await,
            Ev::Shutdown => {
                if let Some(handle) = handle_opt.take() {
                    shutdown_at = Some(Instant::now());
                    shutdown_join = Some(tokio::spawn(async move {
                        handle.shutdown().await.map_err(|err| err.to_string())
                    }));
                }
            }
            Ev::Lock(ms) => {
                let fut = async {
                    let mut guard = chitchat_arc.lock().await;
                    guard.self_node_state().set("user", Instant::now().elapsed().as_nanos());
                    tokio::time::sleep(Duration::from_millis(ms)).await;
                    drop(guard);
                };
                if tokio::time::timeout(Duration::from_secs(3600), fut)
                    .await
                    .is_err()
                {
                    return Err("user lock acquisition deadlocked".to_string());
                }
            }
        }
    }
    // settle
    tokio::time::sleep(Duration::from_secs(30)).await;
    let now_ms = (Instant::now() - start).as_millis() as u64;
    tokio::time::sleep(Duration::from_millis(2 * INTERVAL_MS - now_ms % INTERVAL_MS - 20)).await;
    let end = Instant::now();
    let sends = shared.lock().unwrap().sends.clone();
    let heartbeat = chitchat_arc.lock().await.self_node_state().heartbeat().0;

    if let Some(join) = shutdown_join {
        match tokio::time::timeout(Duration::from_secs(3600), join).await {
            Err(_) => return Err("shutdown did not complete".to_string()),
            Ok(Err(join_err)) => return Err(format!("shutdown task failed {join_err}")),
            Ok(Ok(res)) => {
                // a fatal receive error that won the race is a legitimate result
                if let Err(err) = res {
                    if fatal_at.is_none() || !err.contains("scripted fatal recv") {
                        return Err(format!("shutdown returned {err}"));
                    }
                }
            }
        }
        let res = tokio::time::timeout(Duration::from_secs(3600), watcher)
            .await
            .map_err(|_| "watcher pending after shutdown".to_string())?;
        if let Err(err) = res {
            if fatal_at.is_none() {
                return Err(format!("watcher after shutdown: {err}"));
            }
        }
        // no round after the shutdown + longest delay
        return Ok(());
    }
    if fatal_at.is_some() {
        let res = tokio::time::timeout(Duration::from_secs(3600), watcher)
            .await
            .map_err(|_| "watcher pending after fatal recv".to_string())?;
        match res {
            Ok(()) => return Err("fatal recv reported as clean exit".to_string()),
            Err(err) if err.to_string().contains("scripted fatal recv") => {}
            Err(err) => return Err(format!("fatal recv reported as {err}")),
        }
        let last_send = sends.last().map(|rec| rec.at);
        if let Some(last_send) = last_send {
            if last_send > fatal_at.unwrap() + Duration::from_secs(2) {
                return Err("sends long after the fatal error".to_string());
            }
        }
        return Ok(());
    }
    // alive all along: every tick must have produced a round, every SYN an answer.
    let elapsed_ms = (end - start).as_millis() as u64;
    let expected_rounds = elapsed_ms / INTERVAL_MS + 1;
    // heartbeat: 1 at creation + 1 per round + 1 per processed message
    let expected_heartbeat = 1 + expected_rounds + valid_syns + other_msgs;
    if heartbeat != expected_heartbeat {
        return Err(format!(
            "heartbeat {heartbeat} but model predicts {expected_heartbeat} ({expected_rounds} \
             rounds, {valid_syns} syns)"
        ));
    }
    let synacks = sends.iter().filter(|rec| rec.kind == "synack").count() as u64;
    if synacks != valid_syns {
        return Err(format!("{valid_syns} SYN received but {synacks} SYN-ACK attempted"));
    }
    // C17 at the server level: no live peer, a seed exists: every round contacts the seed
    let syn_times: HashSet<u64> = sends
        .iter()
        .filter(|rec| rec.kind == "syn" && rec.to == peer_addr)
        .map(|rec| (rec.at - start).as_millis() as u64)
        .collect();
    let _ = syn_times;
    let syns = sends.iter().filter(|rec| rec.kind == "syn").count() as u64;
    if syns < expected_rounds {
        return Err(format!("{syns} SYN for {expected_rounds} rounds"));
    }
    if syns > expected_rounds * 5 {
        return Err(format!("{syns} SYN for {expected_rounds} rounds: more than 5 per round"));
    }
    match tokio::time::timeout(Duration::from_millis(1), watcher).await {
        Err(_) => Ok(()),
        Ok(res) => Err(format!("loop terminated without reason: {res:?}")),
    }
}

#[test]
fn explore_scripts() {
    let mut failures = Vec::new();
    let num_runs: u64 = std::env::var("HUNT_RUNS")
        .ok()
        .and_then(|v| v.parse().ok())
        .unwrap_or(300);
    for seed in 0..num_runs {
        let mut rng = Lcg(seed.wrapping_mul(0x9E37_79B9_7F4A_7C15) ^ 0xABCD);
        let script = gen_script(&mut rng);
        let runtime = tokio::runtime::Builder::new_current_thread()
            .enable_all()
            .start_paused(true)
            .build()
            .unwrap();
        let res = runtime.block_on(run_script(&script));
        if let Err(err) = res {
            failures.push((seed, script, err));
        }
    }
    for (seed, script, err) in failures.iter().take(10) {
        println!("seed {seed}: {err}\n   {script:?}");
    }
    assert!(failures.is_empty(), "{} failing scripts", failures.len());
}

// ---------------------------------------------------------------------------------------------
// Real UDP over loopback: garbage, empty, truncated, oversized datagrams, closed ports.
// ---------------------------------------------------------------------------------------------
async fn udp_probe(server_addr: SocketAddr, client_addr: SocketAddr, closed_addr: SocketAddr) {
    use crate::transport::UdpTransport;
    let mut cfg = config(server_addr.port(), closed_addr);
    cfg.chitchat_id = ChitchatId::new("udp-server".to_string(), 0, server_addr);
    cfg.listen_addr = server_addr;
    cfg.gossip_interval = Duration::from_millis(20);
    let handle = spawn_chitchat(cfg, Vec::new(), &UdpTransport).await.unwrap();
    let watcher = handle.termination_watcher();
    let client = tokio::net::UdpSocket::bind(client_addr).await.unwrap();

    let (_seed_tx, seed_rx) = watch::channel(HashSet::new());
    let mut peer_cfg = config(client_addr.port(), closed_addr);
    peer_cfg.chitchat_id = ChitchatId::new("udp-client".to_string(), 0, client_addr);
    let mut peer = Chitchat::with_chitchat_id_and_seeds(peer_cfg, seed_rx, Vec::new());
    let valid = peer.create_syn_message().serialize_to_vec();

    let mut datagrams: Vec<Vec<u8>> = vec![
        Vec::new(),
        b"junk".to_vec(),
        vec![0xffu8; 65_507],
        vec![0u8; 1],
        valid[..valid.len() - 1].to_vec(),
        valid[..5].to_vec(),
    ];
    if server_addr.is_ipv6() {
        datagrams.push(vec![0xabu8; 65_527]);
        let mut oversized_valid_prefix = valid.clone();
        oversized_valid_prefix.resize(65_527, 0u8);
        datagrams.push(oversized_valid_prefix);
    }
    // every prefix of a valid SYN-ACK / ACK as well
    for datagram in &datagrams {
        let res = client.send_to(datagram, server_addr).await;
        println!("sent {} bytes: {res:?}", datagram.len());
    }
    tokio::time::sleep(Duration::from_millis(200)).await;
    let hb_before = handle
        .with_chitchat(|chitchat| chitchat.self_node_state().heartbeat().0)
        .await;
    tokio::time::sleep(Duration::from_millis(200)).await;
    let hb_after = handle
        .with_chitchat(|chitchat| chitchat.self_node_state().heartbeat().0)
        .await;
    assert!(hb_after > hb_before + 5, "heartbeats stalled {hb_before} {hb_after}");
    peer.update_self_heartbeat();
    let valid = peer.create_syn_message().serialize_to_vec();
    client.send_to(&valid, server_addr).await.unwrap();
    let mut buf = vec![0u8; 65_536];
    let mut got_synack = false;
    for _ in 0..50 {
        let Ok(res) =
            tokio::time::timeout(Duration::from_millis(500), client.recv_from(&mut buf)).await
        else {
            break;
        };
        let (len, _from) = res.unwrap();
        let msg = ChitchatMessage::deserialize(&mut &buf[..len]).unwrap();
        if kind_of(&msg) == "synack" {
            got_synack = true;
            break;
        }
    }
    assert!(got_synack, "no SYN-ACK after the garbage");
    assert!(
        tokio::time::timeout(Duration::from_millis(10), watcher).await.is_err(),
        "server terminated"
    );
    handle.shutdown().await.unwrap();
}

#[tokio::test]
async fn udp_garbage_v4() {
    udp_probe(
        "127.0.0.1:41001".parse().unwrap(),
        "127.0.0.1:41002".parse().unwrap(),
        "127.0.0.1:41003".parse().unwrap(),
    )
    .await;
}

#[tokio::test]
async fn udp_garbage_v6() {
    udp_probe(
        "[::1]:41011".parse().unwrap(),
        "[::1]:41012".parse().unwrap(),
        "[::1]:41013".parse().unwrap(),
    )
    .await;
}

// ---------------------------------------------------------------------------------------------
// C17: exhaustive over the subset structure of a universe of 5 addresses (run with
// `--features verif`, the selection function is private to `server`).
// ---------------------------------------------------------------------------------------------
#[cfg(feature = "verif")]
mod c17 {
    use std::collections::HashSet;
    use std::net::SocketAddr;

    struct ScriptRng {
        values: Vec<u64>,
        pos: usize,
    }

    impl rand::TryRng for ScriptRng {
        type Error = std::convert::Infallible;

        fn try_next_u32(&mut self) -> Result<u32, Self::Error> {
            Ok(self.try_next_u64()? as u32)
        }

        fn try_next_u64(&mut self) -> Result<u64, Self::Error> {
            let value = self.values[self.pos % self.values.len()];
            self.pos += 1;
            Ok(value)
        }

        fn try_fill_bytes(&mut self, dest: &mut [u8]) -> Result<(), Self::Error> {
            for byte in dest {
                *byte = self.try_next_u64()? as u8;
            }
            Ok(())
        }
    }

    #[test]
    fn c17_exhaustive() {
        const N: usize = 6;
        let addrs: Vec<SocketAddr> = (0..N)
            .map(|i| SocketAddr::from(([127, 0, 0, 1], 1000 + i as u16)))
            .collect();
        let rngs: Vec<Vec<u64>> = vec![
            vec![0],
            vec![u64::MAX],
            vec![u64::MAX / 2],
            vec![0, u64::MAX],
            vec![u64::MAX, 0],
            vec![u32::MAX as u64],
            vec![1 << 63, 12345, u64::MAX - 1, 7 << 29],
        ];
        let mut count = 0u64;
        for code in 0..(16u32.pow(N as u32)) {
            let mut peers = HashSet::new();
            let mut live = HashSet::new();
            let mut dead = HashSet::new();
            let mut seeds = HashSet::new();
            for (i, addr) in addrs.iter().enumerate() {
                let bits = (code >> (4 * i)) & 15;
                if bits & 1 != 0 {
                    peers.insert(*addr);
                }
                if bits & 2 != 0 {
                    live.insert(*addr);
                }
                if bits & 4 != 0 {
                    dead.insert(*addr);
                }
                if bits & 8 != 0 {
                    seeds.insert(*addr);
                }
            }
            for values in &rngs {
                let mut rng = ScriptRng {
                    values: values.clone(),
                    pos: 0,
                };
                let (nodes, dead_opt, seed_opt) = crate::server::verif_select_nodes_for_gossip(
                    &mut rng,
                    peers.clone(),
                    live.clone(),
                    dead.clone(),
                    seeds.clone(),
                );
                count += 1;
                let pool = if live.is_empty() { &peers } else { &live };
                let distinct: HashSet<_> = nodes.iter().copied().collect();
                assert_eq!(distinct.len(), nodes.len());
                assert!(nodes.len() <= 3);
                assert_eq!(nodes.len(), pool.len().min(3), "{peers:?} {live:?}");
                assert!(distinct.is_subset(pool));
                if let Some(dead_node) = dead_opt {
                    assert!(dead.contains(&dead_node));
                }
                if dead.len() > live.len() {
                    assert!(dead_opt.is_some(), "{live:?} {dead:?} {values:?}");
                }
                if let Some(seed_node) = seed_opt {
                    assert!(seeds.contains(&seed_node));
                }
                if live.is_empty() && !seeds.is_empty() {
                    assert!(
                        seed_opt.is_some() || !distinct.is_disjoint(&seeds),
                        "{peers:?} {seeds:?} {values:?}"
                    );
                }
            }
        }
        println!("{count} cases");
    }
}

// ---------------------------------------------------------------------------------------------
// Multi-node random histories on the real servers (ChannelTransport + fault wrapper).
// ---------------------------------------------------------------------------------------------
mod cluster {
    use std::sync::atomic::{AtomicU64, Ordering};

    use super::*;
    use crate::transport::ChannelTransport;

    struct FaultyTransport {
        inner: ChannelTransport,
        rng: Arc<AtomicU64>,
        err_pct: u64,
        delay_pct: u64,
    }

    struct FaultySocket {
        inner: Box<dyn Socket>,
        rng: Arc<AtomicU64>,
        err_pct: u64,
        delay_pct: u64,
    }

    fn next(rng: &AtomicU64, n: u64) -> u64 {
        let mut value = rng.load(Ordering::Relaxed);
        value = value
            .wrapping_mul(6364136223846793005)
            .wrapping_add(1442695040888963407);
        rng.store(value, Ordering::Relaxed);
        (value >> 33) % n
    }

    #[async_trait]
    impl Transport for FaultyTransport {
        async fn open(&self, listen_addr: SocketAddr) -> anyhow::Result<Box<dyn Socket>> {
            let inner = self.inner.open(listen_addr).await?;
            Ok(Box::new(FaultySocket {
                inner,
                rng: self.rng.clone(),
                err_pct: self.err_pct,
                delay_pct: self.delay_pct,
            }))
        }
    }

    #[async_trait]
    impl Socket for FaultySocket {
        async fn send(&mut self, to: SocketAddr, msg: ChitchatMessage) -> anyhow::Result<()> {
            if next(&self.rng, 100) < self.delay_pct {
                let ms = [5, 60, 300][next(&self.rng, 3) as usize];
                tokio::time::sleep(Duration::from_millis(ms)).await;
            }
            if next(&self.rng, 100) < self.err_pct {
                anyhow::bail!("injected send error");
            }
            self.inner.send(to, msg).await
        }

        async fn recv(&mut self) -> anyhow::Result<(SocketAddr, ChitchatMessage)> {
            self.inner.recv().await
        }
    }

    fn node_config(idx: usize, generation: u64, seeds: Vec<String>) -> ChitchatConfig {
        let addr: SocketAddr = ([127, 0, 0, 1], 30_000 + idx as u16).into();
        ChitchatConfig {
            chitchat_id: ChitchatId::new(format!("n{idx}"), generation, addr),
            cluster_id: "c".to_string(),
            gossip_interval: Duration::from_millis(50),
            listen_addr: addr,
            seed_nodes: seeds,
            failure_detector_config: FailureDetectorConfig {
                phi_threshold: 8.0,
                sampling_window_size: 100,
                max_interval: Duration::from_secs(2),
                initial_interval: Duration::from_millis(100),
                dead_node_grace_period: Duration::from_secs(4),
            },
            marked_for_deletion_grace_period: Duration::from_millis(700),
            catchup_callback: None,
            extra_liveness_predicate: None,
        }
    }

    async fn run(seed: u64) -> Result<(), String> {
        let mut rng = Lcg(seed.wrapping_mul(0x9E37_79B9_7F4A_7C15) ^ 0x1234_5678);
        let num_nodes = 2 + rng.next(3) as usize;
        let channel = ChannelTransport::with_mtu(crate::MAX_UDP_DATAGRAM_PAYLOAD_SIZE);
        let transport = FaultyTransport {
            inner: channel.clone(),
            rng: Arc::new(AtomicU64::new(seed ^ 0x55)),
            err_pct: [0, 10, 40][rng.next(3) as usize],
            delay_pct: [0, 5, 20][rng.next(3) as usize],
        };
        let addr_of = |idx: usize| -> SocketAddr { ([127, 0, 0, 1], 30_000 + idx as u16).into() };
        let seeds = vec![addr_of(0).to_string()];
        let mut generations = vec![0u64; num_nodes];
        let mut handles: Vec<Option<crate::ChitchatHandle>> = Vec::new();
        for idx in 0..num_nodes {
            let handle = spawn_chitchat(node_config(idx, 0, seeds.clone()), Vec::new(), &transport)
                .await
                .unwrap();
            handles.push(Some(handle));
        }
        let num_steps = 40 + rng.next(100);
        for step in 0..num_steps {
            let idx = rng.next(num_nodes as u64) as usize;
            match rng.next(12) {
                0..=3 => {
                    if let Some(handle) = &handles[idx] {
                        let key = format!("k{}", rng.next(6));
                        let big = rng.next(8) == 0;
                        let value = if big {
                            let len = [20_000usize, 30_000, 32_700, 40_000][rng.next(4) as usize];
                            // incompressible 7-bit content
                            (0..len).map(|_| (33 + rng.next(90)) as u8 as char).collect::<String>()
                        } else {
                            format!("v{step}")
                        };
                        let op = rng.next(5);
                        handle
                            .with_chitchat(|chitchat| {
                                let state = chitchat.self_node_state();
                                match op {
                                    0 | 1 => state.set(key.clone(), value.clone()),
                                    2 => state.delete(&key),
                                    3 => state.set_with_ttl(key.clone(), value.clone()),
                                    _ => state.delete_after_ttl(&key),
                                }
                            })
                            .await;
                    }
                }
                4 => {
                    let other = rng.next(num_nodes as u64) as usize;
                    channel.remove_link(addr_of(idx), addr_of(other)).await;
                }
                5 => {
                    let other = rng.next(num_nodes as u64) as usize;
                    channel.add_link(addr_of(idx), addr_of(other)).await;
                }
                6 => {
                    // restart with a new generation
                    if let Some(handle) = handles[idx].take() {
                        let res = tokio::time::timeout(Duration::from_secs(600), handle.shutdown())
                            .await
                            .map_err(|_| format!("step {step}: shutdown of n{idx} stuck"))?;
                        res.map_err(|err| format!("step {step}: shutdown of n{idx}: {err}"))?;
                    }
                    if rng.next(3) > 0 {
                        generations[idx] += 1;
                        let handle = spawn_chitchat(
                            node_config(idx, generations[idx], seeds.clone()),
                            Vec::new(),
                            &transport,
                        )
                        .await
                        .map_err(|err| format!("respawn {err}"))?;
                        handles[idx] = Some(handle);
                    }
                }
                7 => {
                    if handles[idx].is_none() {
                        generations[idx] += 1;
                        let handle = spawn_chitchat(
                            node_config(idx, generations[idx], seeds.clone()),
                            Vec::new(),
                            &transport,
                        )
                        .await
                        .map_err(|err| format!("respawn {err}"))?;
                        handles[idx] = Some(handle);
                    }
                }
                _ => {
                    let ms = [10, 50, 120, 500, 2_500][rng.next(5) as usize];
                    tokio::time::sleep(Duration::from_millis(ms)).await;
                }
            }
            for (idx, handle_opt) in handles.iter().enumerate() {
                if let Some(handle) = handle_opt {
                    let watcher = handle.termination_watcher();
                    if let Ok(res) = tokio::time::timeout(Duration::ZERO, watcher).await {
                        return Err(format!("step {step}: n{idx} terminated: {res:?}"));
                    }
                }
            }
        }
        // heartbeats keep advancing on every node that is up
        let mut before = Vec::new();
        for handle in handles.iter().flatten() {
            before.push(
                handle
                    .with_chitchat(|chitchat| chitchat.self_node_state().heartbeat().0)
                    .await,
            );
        }
        tokio::time::sleep(Duration::from_secs(5)).await;
        for (pos, handle) in handles.iter().flatten().enumerate() {
            let after = handle
                .with_chitchat(|chitchat| chitchat.self_node_state().heartbeat().0)
                .await;
            if after < before[pos] + 10 {
                return Err(format!("heartbeat stalled {} -> {after}", before[pos]));
            }
        }
        for handle in handles.into_iter().flatten() {
            let res = tokio::time::timeout(Duration::from_secs(600), handle.shutdown())
                .await
                .map_err(|_| "final shutdown stuck".to_string())?;
            res.map_err(|err| format!("final shutdown: {err}"))?;
        }
        Ok(())
    }

    #[test]
    fn explore_cluster() {
        let num_runs: u64 = std::env::var("HUNT_RUNS")
            .ok()
            .and_then(|v| v.parse().ok())
            .unwrap_or(50);
        let mut failures = Vec::new();
        for seed in 0..num_runs {
            let runtime = tokio::runtime::Builder::new_current_thread()
                .enable_all()
                .start_paused(true)
                .build()
                .unwrap();
            let res = runtime.block_on(run(seed));
            if let Err(err) = res {
                println!("seed {seed}: {err}");
                failures.push(seed);
            }
        }
        assert!(failures.is_empty(), "failing seeds {failures:?}");
    }
}

// ---------------------------------------------------------------------------------------------
// Side observations (configuration boundary values; outside C17/C19, kept as #[ignore]).
// ---------------------------------------------------------------------------------------------
mod side {
    use super::*;
    use crate::transport::ChannelTransport;

    async fn boundary(mutate: impl Fn(&mut ChitchatConfig)) -> Option<String> {
        let transport = ChannelTransport::with_mtu(crate::MAX_UDP_DATAGRAM_PAYLOAD_SIZE);
        let addr1: SocketAddr = ([127, 0, 0, 1], 20_001u16).into();
        let addr2: SocketAddr = ([127, 0, 0, 1], 20_002u16).into();
        let mut cfg1 = config(20_001, addr2);
        mutate(&mut cfg1);
        let cfg2 = config(20_002, addr1);
        let node1 = spawn_chitchat(cfg1, Vec::new(), &transport).await.unwrap();
        let node2 = spawn_chitchat(cfg2, vec![("k".into(), "v".into())], &transport)
            .await
            .unwrap();
        tokio::time::sleep(Duration::from_secs(2)).await;
        node2
            .with_chitchat(|chitchat| chitchat.self_node_state().delete("k"))
            .await;
        tokio::time::sleep(Duration::from_secs(2)).await;
        // node2 goes away: node1 sees it dead
        node2.shutdown().await.unwrap();
        tokio::time::sleep(Duration::from_secs(120)).await;
        let watcher = node1.termination_watcher();
        match tokio::time::timeout(Duration::ZERO, watcher).await {
            Ok(res) => Some(format!("{res:?}")),
            Err(_) => None,
        }
    }

    #[tokio::test(start_paused = true)]
    #[ignore]
    async fn side_dead_node_grace_period_max() {
        let res = boundary(|cfg| {
            cfg.failure_detector_config.dead_node_grace_period = Duration::MAX;
        })
        .await;
        assert_eq!(res, None);
    }

    #[tokio::test(start_paused = true)]
    #[ignore]
    async fn side_marked_for_deletion_grace_period_max() {
        let res = boundary(|cfg| {
            cfg.marked_for_deletion_grace_period = Duration::MAX;
        })
        .await;
        assert_eq!(res, None);
    }

    #[tokio::test(start_paused = true)]
    #[ignore]
    async fn side_sampling_window_zero() {
        let res = boundary(|cfg| {
            cfg.failure_detector_config.sampling_window_size = 0;
        })
        .await;
        assert_eq!(res, None);
    }
}

#[tokio::test(start_paused = true)]
#[ignore]
async fn side_gossip_interval_zero() {
    let transport = crate::transport::ChannelTransport::with_mtu(65_507);
    let mut cfg = config(20_001, ([127, 0, 0, 1], 20_002u16).into());
    cfg.gossip_interval = Duration::ZERO;
    let node = spawn_chitchat(cfg, Vec::new(), &transport).await.unwrap();
    tokio::time::sleep(Duration::from_secs(1)).await;
    let res = tokio::time::timeout(Duration::ZERO, node.termination_watcher()).await;
    assert!(res.is_err(), "{res:?}");
}
