#!/bin/bash
# tools/mutscan_setup.sh [dir]: (re)creates the isolated copy used by tools/mutscan.py:
# <dir>/repo = detached worktree of /repo at HEAD, <dir>/verif = copy of /verif whose simulator
# builds against <dir>/repo. Remove with: git -C /repo worktree remove --force <dir>/repo; rm -rf <dir>
d="${1:-/tmp/mut}"
mkdir -p "$d"
if [ -d "$d/repo" ]; then git -C "$d/repo" checkout -q -- . && git -C "$d/repo" checkout -q --detach "$(git -C /repo rev-parse HEAD)"; else git -C /repo worktree add -q --detach "$d/repo" HEAD; fi
rsync -a --exclude sim/target --exclude replays --exclude .git --exclude sim/Cargo.toml /verif/ "$d/verif/"
sed "s#/repo/chitchat#$d/repo/chitchat#" /verif/sim/Cargo.toml > "$d/verif/sim/Cargo.toml"
mkdir -p "$d/verif/replays"
echo "isolated copy ready in $d (repo at $(git -C "$d/repo" rev-parse --short HEAD))"
