#!/usr/bin/env python3
"""Sensitivity harness: apply one small property-breaking change to /repo's working tree, run the
quick checks that should notice, undo it. Usage: tools/mutants.py [name ...]"""
import subprocess, sys, json, time, os

M = [
 # name, file, old, new, properties expected to catch
 ("state160_lt", "chitchat/src/state.rs", "node_delta.last_gc_version <= self.last_gc_version ||", "node_delta.last_gc_version < self.last_gc_version ||", ["C14","C01"]),
 ("state162_lt", "chitchat/src/state.rs", "node_delta.last_gc_version <= self.max_version();", "node_delta.last_gc_version < self.max_version();", ["C14","C01","C05"]),
 ("reset_le_gc", "chitchat/src/state.rs", "let should_reset = digest_last_gc_version < node_state.last_gc_version", "let should_reset = digest_last_gc_version <= node_state.last_gc_version", ["C14"]),
 ("reset_le_mv", "chitchat/src/state.rs", "&& digest_max_version < node_state.last_gc_version;", "&& digest_max_version <= node_state.last_gc_version;", ["C14","C02"]),
 ("gc_min", "chitchat/src/state.rs", "max_deleted_version = versioned_value.version.max(max_deleted_version);", "max_deleted_version = versioned_value.version.min(max_deleted_version);", ["C02","C06"]),
 ("gc_le", "chitchat/src/state.rs", "if now < deleted_start_instant + grace_period {", "if now <= deleted_start_instant + grace_period {", ["C06"]),
 ("tomb_skip_inverted", "chitchat/src/state.rs", "if key_value_mutation.version <= self.last_gc_version {\n                    continue;", "if key_value_mutation.version > self.last_gc_version {\n                    continue;", ["C02","C03","C01"]),
 ("hb_ge", "chitchat/src/state.rs", "if heartbeat_new_value > self.heartbeat {", "if heartbeat_new_value >= self.heartbeat {", ["C11"]),
 ("setmax_dropped", "chitchat/src/delta.rs", "if node_delta.key_values.is_empty() && node_delta.max_version > 0 {", "if false && node_delta.key_values.is_empty() && node_delta.max_version > 0 {", ["C01","C08","C14"]),
 ("recreate_le", "chitchat/src/lib.rs", ".map(|last_heartbeat| last_heartbeat < heartbeat)", ".map(|last_heartbeat| last_heartbeat <= heartbeat)", ["C12"]),
 ("cluster_check_late", "chitchat/src/lib.rs", "ChitchatMessage::Syn { cluster_id, digest } => {\n                if cluster_id != self.cluster_id() {", "ChitchatMessage::Syn { cluster_id, digest } => {\n                self.report_heartbeats_in_digest(&digest);\n                if cluster_id != self.cluster_id() {", ["C16"]),
 ("self_hb_guard_removed", "chitchat/src/lib.rs", "if chitchat_id == self.self_chitchat_id() {\n            return;\n        }\n\n        let should_init_if_absent", "if false {\n            return;\n        }\n\n        let should_init_if_absent", ["C05"]),
 ("callback_per_node", "chitchat/src/lib.rs", "if was_reset_triggered {", "if !was_reset_triggered {", ["C20"]),
 ("fd_gc_gt", "chitchat/src/failure_detector.rs", "if now >= time_of_death + self.config.dead_node_grace_period {", "if now > time_of_death + self.config.dead_node_grace_period {", ["C12"]),
 ("fd_half_full", "chitchat/src/failure_detector.rs", "self.config.dead_node_grace_period.div_f32(2.0f32)", "self.config.dead_node_grace_period.div_f32(1.0f32)", ["C12"]),
 ("fd_maxint_filter", "chitchat/src/failure_detector.rs", "if interval <= self.max_interval {", "if true {", ["C10"]),
 ("gossip_count_4", "chitchat/src/server.rs", "const GOSSIP_COUNT: usize = 3;", "const GOSSIP_COUNT: usize = 4;", ["C17"]),
 ("dead_prob_inverted", "chitchat/src/server.rs", "if selection_probability > rng.random::<f64>() {", "if selection_probability < rng.random::<f64>() {", ["C17"]),
 ("seed_forced_removed", "chitchat/src/server.rs", "if live_nodes_count == 0 || rng.random::<f64>() <= selection_probability {", "if rng.random::<f64>() <= selection_probability {", ["C17"]),
 ("listener_strip", "chitchat/src/listener.rs", "Bound::Included(key_change_event.key),\n        );", "Bound::Excluded(key_change_event.key),\n        );", ["C15"]),
 ("digest_field_swap", "chitchat/src/digest.rs", "        self.heartbeat.serialize(buf);\n        self.last_gc_version.serialize(buf);", "        self.last_gc_version.serialize(buf);\n        self.heartbeat.serialize(buf);", ["C08"]),
 ("digest_field_swap_both", "chitchat/src/digest.rs", None, None, ["C08"]),
 ("revert_F2", "chitchat/src/listener.rs", "Bound::Included(&key_change_event.key[0..first_char_len]),", "Bound::Included(&key_change_event.key[0..1]),", ["C15"]),
 ("revert_F3", "chitchat/src/delta.rs", "current_node_delta.max_version <= max_version,", "true,", ["C09"]),
 ("revert_F4a", "chitchat/src/lib.rs", "if last_gc_version < node_state.last_gc_version() {", "if false {", ["C18"]),
 ("revert_F4b", "chitchat/src/lib.rs", "if node_state.max_version() < max_version {\n            node_state.set_max_version(max_version);", "if false {\n            node_state.set_max_version(max_version);", ["C18"]),
 ("revert_F5", "chitchat/src/lib.rs", "if self.previous_live_nodes != current_live_nodes || selection_changed {", "if self.previous_live_nodes != current_live_nodes {", ["C13"]),
 ("revert_F6", "chitchat/src/lib.rs", "let delta_mtu = MAX_UDP_DATAGRAM_PAYLOAD_SIZE - 4 - self_digest.serialized_len();", "let delta_mtu = MAX_UDP_DATAGRAM_PAYLOAD_SIZE - 1 - self_digest.serialized_len();", ["C07"]),
 ("sched_skip_removed", "chitchat/src/state.rs", "            if scheduled_for_deletion.contains(chitchat_id) {\n                continue;\n            }\n\n            let (digest_last_gc_version", "            if false {\n                continue;\n            }\n\n            let (digest_last_gc_version", ["C07","C12"]),
 ("stale_sort_removed", "chitchat/src/state.rs", ".sorted_unstable_by_key(|(_, versioned_value)| versioned_value.version)", ".sorted_unstable_by_key(|(_, versioned_value)| std::cmp::Reverse(versioned_value.version))", ["C07","C02","C08"]),
 ("set_same_value_status", "chitchat/src/state.rs", "if previous_versioned_value.value == value\n                && matches!(previous_versioned_value.status, DeletionStatus::Set)\n            {", "if previous_versioned_value.value == value\n            {", ["C06","C04"]),
 ("send_err_propagates", "chitchat/src/server.rs", "let _ = self.handle_message(from_addr, message).await;", "self.handle_message(from_addr, message).await?;", ["C19"]),
 ("shutdown_ignored", "chitchat/src/server.rs", "Some(Command::Shutdown) | None => break,", "Some(Command::Shutdown) => {},\n                    None => break,", ["C19"]),
]

def sh(cmd, **kw):
    return subprocess.run(cmd, shell=True, capture_output=True, text=True, **kw)

def apply(name, f, old, new):
    path = "/repo/" + f
    s = open(path).read()
    if name == "digest_field_swap_both":
        a = "        self.heartbeat.serialize(buf);\n        self.last_gc_version.serialize(buf);"
        b = "        self.last_gc_version.serialize(buf);\n        self.heartbeat.serialize(buf);"
        c = "        let heartbeat = Heartbeat::deserialize(buf)?;\n        let last_gc_version = Version::deserialize(buf)?;"
        d = "        let last_gc_version = Version::deserialize(buf)?;\n        let heartbeat = Heartbeat::deserialize(buf)?;"
        assert a in s and c in s
        s = s.replace(a, b, 1).replace(c, d, 1)
    else:
        assert old in s, f"pattern for {name} not found"
        s = s.replace(old, new, 1)
    open(path, "w").write(s)

def main():
    names = sys.argv[1:]
    results = {}
    for (name, f, old, new, props) in M:
        if names and name not in names: continue
        assert sh("git -C /repo status --porcelain").stdout.strip() == "", "repo not clean"
        try:
            apply(name, f, old, new)
            row = {}
            for p in props:
                t0 = time.time()
                r = sh(f"VERIF_RUNS_PCT={os.environ.get('PCT','100')} /verif/check {p} quick")
                caught = "VIOLATION" in r.stdout
                line = [l for l in r.stdout.splitlines() if l.startswith("minimised") or l.startswith("violation")]
                row[p] = {"caught": caught, "exit": r.returncode, "s": round(time.time()-t0,1), "what": (line[-1][:200] if line else r.stdout[-200:] + r.stderr[-300:])}
                print(f"{name:26s} {p} {'CAUGHT' if caught else 'missed'} exit={r.returncode} {row[p]['s']}s {row[p]['what'][:150]}", flush=True)
            results[name] = row
        finally:
            sh("git -C /repo checkout -- .")
    json.dump(results, open("/verif/tools/mutants_last.json", "w"), indent=1)

main()
