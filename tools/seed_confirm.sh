#!/bin/bash
# tools/seed_confirm.sh <Cxx>: independent confirmation of a sub-agent's seeded change in its scratch worktree:
# existing suite passes with the change, demo fails with it, demo passes without it.
id="$1"; lid=$(echo "$id" | tr 'A-Z' 'a-z'); wt=/tmp/wt${ROUND:-}-$id
cd "$wt" || exit 2
export RUSTUP_TOOLCHAIN=1.88.0 CARGO_NET_OFFLINE=true
echo "## $id: diff vs patch.diff"
git diff -- chitchat/src ':!chitchat/src/demo_*' | grep '^[+-][^+-]' | grep -v 'mod demo_' | grep -v '^+#\[cfg(test)\]$' > /tmp/.d1-$id; grep '^[+-][^+-]' patch.diff > /tmp/.d2-$id
if diff -q /tmp/.d1-$id /tmp/.d2-$id >/dev/null; then echo "worktree change == patch.diff"; else echo "MISMATCH between worktree and patch.diff"; diff /tmp/.d1-$id /tmp/.d2-$id | head; fi
echo "## $id: full suite WITH the change"
cargo test --offline -p chitchat --no-fail-fast 2>&1 | grep -E "^test result|^test .* FAILED|panicked at" | sort | uniq -c | head -30
echo "## $id: demo WITHOUT the change"
git apply -R patch.diff && cargo test --offline -p chitchat --lib demo_$lid 2>&1 | grep -E "^test result|FAILED" | head; git apply patch.diff
echo "## $id: demo WITH the change"
cargo test --offline -p chitchat --lib demo_$lid 2>&1 | grep -E "^test result|FAILED" | head
