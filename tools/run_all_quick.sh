#!/bin/bash
# runs every quick check on the current tree, prints one line per property
cd /verif
for i in $(seq -w 1 20); do
  p=C$i
  out=$(./check $p quick 2>&1); code=$?
  echo "$p exit=$code $(echo "$out" | grep -E '^(property=|VIOLATION|KNOWN)' | tr '\n' ' ' | cut -c1-260)"
done
