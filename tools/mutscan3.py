#!/usr/bin/env python3
"""Third systematic scan (sensitivity measure): literals.

Same isolated copy and procedure as tools/mutscan.py / mutscan2.py. Every integer literal of the
non-test sources is nudged (0 -> 1, 1 -> 0, n -> n + 1; floats: x.y -> x.y * 2) and every `true` /
`false` is flipped, one change at a time. Results: tools/mutscan3_results.jsonl.

usage: tools/mutscan3.py [--files a.rs,b.rs] [--pct P] [--limit M]
"""
import argparse, json, os, re, subprocess, time

REPO = os.environ.get("MUT_REPO", "/tmp/mut/repo")
VERIF = os.environ.get("MUT_VERIF", "/tmp/mut/verif")
OUT = os.environ.get("MUT_OUT", "/verif/tools/mutscan3_results.jsonl")
FILES = ["state.rs", "lib.rs", "delta.rs", "failure_detector.rs", "listener.rs", "server.rs", "serialize.rs", "message.rs", "digest.rs", "types.rs", "transport/udp.rs"]
ORDER = ["C14", "C02", "C06", "C04", "C20", "C05", "C03", "C07", "C01", "C08", "C12", "C13", "C10", "C11", "C15", "C16", "C17", "C18", "C19", "C09"]
FIRST = {
    "failure_detector.rs": ["C10", "C11", "C12", "C13", "C01"],
    "listener.rs": ["C15"],
    "server.rs": ["C17", "C19", "C01"],
    "transport/udp.rs": ["C19", "C08"],
    "serialize.rs": ["C08", "C07", "C09"],
    "message.rs": ["C08", "C09", "C16"],
    "digest.rs": ["C08"],
    "types.rs": ["C08", "C03", "C06"],
    "delta.rs": ["C08", "C07", "C09", "C14", "C01"],
    "lib.rs": ["C12", "C13", "C18", "C16", "C07", "C20", "C05", "C01"],
}
LOGGING = ("warn!", "info!", "debug!", "error!", "trace!")

def non_test_span(src):
    m = re.search(r"^#\[cfg\(test\)\]\s*\nmod tests", src, re.M)
    return len(src) if not m else m.start()

def sites(path):
    src = open(path).read()
    end = non_test_span(src)
    out, pos = [], 0
    for line in src[:end].splitlines(keepends=True):
        st = line.strip()
        if st and not st.startswith(("//", "#[", "use ", "///")) and not any(w in st for w in LOGGING) and "cfg(" not in st and "assert" not in st:
            code = line.split("//")[0]
            for m in re.finditer(r"(?<![\w.\"'#])(\d[\d_]*)(u8|u16|u32|u64|usize|f32|f64)?(?![\w.\"])", code):
                n = int(m.group(1).replace("_", ""))
                rep = ("1" if n == 0 else "0" if n == 1 else str(n + 1)) + (m.group(2) or "")
                out.append((pos + m.start(), pos + m.end(), rep, "literal", st[:100]))
            for m in re.finditer(r"(?<![\w\"])(\d+\.\d+)(f32|f64)?(?![\w\"])", code):
                out.append((pos + m.start(), pos + m.end(), str(float(m.group(1)) * 2) + (m.group(2) or ""), "float", st[:100]))
            for m in re.finditer(r"\b(true|false)\b", code):
                out.append((pos + m.start(), pos + m.end(), "false" if m.group(1) == "true" else "true", "bool", st[:100]))
        pos += len(line)
    return src, out

def sh(cmd, timeout=None):
    return subprocess.run(cmd, shell=True, capture_output=True, text=True, timeout=timeout)

def main():
    ap = argparse.ArgumentParser()
    ap.add_argument("--files", default=",".join(FILES))
    ap.add_argument("--pct", type=int, default=15)
    ap.add_argument("--limit", type=int, default=100000)
    a = ap.parse_args()
    done = set()
    if os.path.exists(OUT):
        for l in open(OUT):
            try:
                r = json.loads(l); done.add((r["file"], r["lineno"], r["col"], r["rep"]))
            except Exception:
                pass
    n = 0
    for f in a.files.split(","):
        path = f"{REPO}/chitchat/src/{f}"
        src, ss = sites(path)
        for (s, e, rep, op, line) in ss:
            lineno = src[:s].count("\n") + 1
            col = s - (src.rfind("\n", 0, s) + 1)
            if (f, lineno, col, rep) in done:
                continue
            if n >= a.limit:
                return
            n += 1
            open(path, "w").write(src[:s] + rep + src[e:])
            rec = {"file": f, "lineno": lineno, "col": col, "op": op, "orig": src[s:e], "rep": rep, "line": line}
            t0 = time.time()
            try:
                b = sh(f"cd {VERIF}/sim && cargo build --release --offline 2>&1 | tail -3", timeout=600)
                if "error" in b.stdout and "Finished" not in b.stdout:
                    rec["outcome"] = "does_not_compile"
                else:
                    order = FIRST.get(f, []) + [c for c in ORDER if c not in FIRST.get(f, [])]
                    rec["outcome"] = "survived"
                    for c in order:
                        try:
                            r = sh(f"VERIF_RUNS_PCT={a.pct} {VERIF}/check {c} quick", timeout=1200)
                        except subprocess.TimeoutExpired:
                            rec.update(outcome="harness_error", by=c, what="timeout")
                            break
                        if "VIOLATION" in r.stdout:
                            v = [l for l in r.stdout.splitlines() if l.startswith(("minimised", "violation"))]
                            rec.update(outcome="caught", by=c, what=(v[-1][:200] if v else "regression replay"))
                            break
                        if r.returncode == 2:
                            rec.update(outcome="harness_error", by=c, what=(r.stderr[-300:] + r.stdout[-200:]))
                            break
            finally:
                open(path, "w").write(src)
            rec["s"] = round(time.time() - t0, 1)
            open(OUT, "a").write(json.dumps(rec) + "\n")
            print(f"{f}:{lineno} {op} [{rec['orig']}->{rep}] {line[:60]!r} {rec['outcome']} {rec.get('by','')} {rec['s']}s", flush=True)

main()
