#!/bin/bash
# tools/seed_try.sh <patch.diff> <prop> [more props...]: apply a seeded change to /repo, run quick checks, undo.
set -u
patch="$1"; shift
test -z "$(git -C /repo status --porcelain)" || { echo "repo not clean"; exit 2; }
git -C /repo apply "$patch" || { echo "patch does not apply"; exit 2; }
for p in "$@"; do
  out=$(/verif/check "$p" quick 2>&1); code=$?
  echo "== $p exit=$code"; echo "$out" | grep -E "^(violation|minimised|VIOLATION|KNOWN|property=|harness)" | cut -c1-400
done
git -C /repo checkout -- .
