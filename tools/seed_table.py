#!/usr/bin/env python3
"""prints the DESIGN.md table of seeded changes from seeded/*/meta.json"""
import json, glob, os, re
rows = []
for d in sorted(glob.glob('/verif/seeded/*')):
    m = json.load(open(d + '/meta.json'))
    name = os.path.basename(d)
    patch = open(d + '/patch.diff').read()
    files = sorted(set(re.findall(r'^\+\+\+ b/chitchat/src/(\S+)', patch, re.M)))
    caught = [f"{c} ({r['output'][-2].split(':')[1].strip().split(' ')[0] if len(r['output'])>1 and ':' in r['output'][-2] else 'caught'})" if r['caught'] else f"{c}: missed" for c, r in m['results'].items()]
    rows.append(f"| `seeded/{name}` | {', '.join(files)} | {m['needs_to_manifest'][:400]} | {'; '.join(caught)} |")
print("| seeded change | file | needs, in order to manifest | quick checks run against it |")
print("|---|---|---|---|")
print("\n".join(rows))
