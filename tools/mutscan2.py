#!/usr/bin/env python3
"""Second systematic scan (sensitivity measure): statement deletion and condition negation.

Same isolated copy and procedure as tools/mutscan.py (tools/mutscan_setup.sh first). For every
single-line statement of the non-test sources (assignments, calls; not declarations, returns,
logging or assertions) the line is deleted; for every single-line `if <cond> {` the condition is
negated. One change at a time: rebuild the simulator in the copy, run the quick checks at a reduced
run count until one reports a VIOLATION, record the outcome in tools/mutscan2_results.jsonl.

usage: tools/mutscan2.py [--files a.rs,b.rs] [--stride N] [--offset K] [--pct P] [--limit M]
"""
import argparse, json, os, re, subprocess, time

REPO = os.environ.get("MUT_REPO", "/tmp/mut/repo")
VERIF = os.environ.get("MUT_VERIF", "/tmp/mut/verif")
OUT = os.environ.get("MUT_OUT", "/verif/tools/mutscan2_results.jsonl")
FILES = ["state.rs", "lib.rs", "delta.rs", "failure_detector.rs", "listener.rs", "server.rs", "serialize.rs", "message.rs", "digest.rs", "types.rs", "transport/udp.rs"]
ORDER = ["C14", "C02", "C06", "C04", "C20", "C05", "C03", "C07", "C01", "C08", "C12", "C13", "C10", "C11", "C15", "C16", "C17", "C18", "C19", "C09"]
FIRST = {
    "failure_detector.rs": ["C10", "C11", "C12", "C13", "C01"],
    "listener.rs": ["C15"],
    "server.rs": ["C17", "C19", "C01"],
    "transport/udp.rs": ["C19", "C08"],
    "serialize.rs": ["C08", "C07", "C09"],
    "message.rs": ["C08", "C09", "C16"],
    "digest.rs": ["C08"],
    "types.rs": ["C08", "C03", "C06"],
    "delta.rs": ["C08", "C07", "C09", "C14", "C01"],
    "lib.rs": ["C12", "C13", "C18", "C16", "C07", "C20", "C05", "C01"],
}
LOGGING = ("warn!", "info!", "debug!", "error!", "trace!")

def non_test_span(src):
    m = re.search(r"^#\[cfg\(test\)\]\s*\nmod tests", src, re.M)
    return len(src) if not m else m.start()

def sites(path):
    src = open(path).read()
    end = non_test_span(src)
    out, pos = [], 0
    for line in src[:end].splitlines(keepends=True):
        st = line.strip()
        if st and not st.startswith(("//", "#[", "use ", "pub use", "}", "{")) and not any(w in st for w in LOGGING) and "cfg(" not in st:
            if (st.endswith(";") and not st.startswith(("let ", "return", "const ", "static ", "type ", "pub ", "mod ", "break", "continue", "assert", "debug_assert"))
                    and st.count("(") == st.count(")") and st.count("{") == st.count("}")):
                out.append((pos, pos + len(line), "", "delete", st[:110]))
            m = re.match(r"^(\s*(?:\} else )?if )(.*)( \{\s*)$", line)
            if m and "let " not in m.group(2):
                out.append((pos, pos + len(line), f"{m.group(1)}!({m.group(2)}){m.group(3)}", "negate", st[:110]))
        pos += len(line)
    return src, out

def sh(cmd, timeout=None):
    return subprocess.run(cmd, shell=True, capture_output=True, text=True, timeout=timeout)

def main():
    ap = argparse.ArgumentParser()
    ap.add_argument("--files", default=",".join(FILES))
    ap.add_argument("--stride", type=int, default=1)
    ap.add_argument("--offset", type=int, default=0)
    ap.add_argument("--pct", type=int, default=15)
    ap.add_argument("--limit", type=int, default=100000)
    a = ap.parse_args()
    done = set()
    if os.path.exists(OUT):
        for l in open(OUT):
            try:
                r = json.loads(l); done.add((r["file"], r["line"], r["op"]))
            except Exception:
                pass
    n = 0
    for f in a.files.split(","):
        path = f"{REPO}/chitchat/src/{f}"
        src, ss = sites(path)
        for idx, (s, e, rep, op, line) in enumerate(ss):
            if idx % a.stride != a.offset % a.stride or (f, line, op) in done:
                continue
            if n >= a.limit:
                return
            n += 1
            open(path, "w").write(src[:s] + rep + src[e:])
            rec = {"file": f, "lineno": src[:s].count("\n") + 1, "op": op, "line": line}
            t0 = time.time()
            try:
                b = sh(f"cd {VERIF}/sim && cargo build --release --offline 2>&1 | tail -3", timeout=600)
                if "error" in b.stdout and "Finished" not in b.stdout:
                    rec["outcome"] = "does_not_compile"
                else:
                    order = FIRST.get(f, []) + [c for c in ORDER if c not in FIRST.get(f, [])]
                    rec["outcome"] = "survived"
                    for c in order:
                        r = sh(f"VERIF_RUNS_PCT={a.pct} {VERIF}/check {c} quick", timeout=900)
                        if "VIOLATION" in r.stdout:
                            v = [l for l in r.stdout.splitlines() if l.startswith(("minimised", "violation"))]
                            rec.update(outcome="caught", by=c, what=(v[-1][:200] if v else "regression replay"))
                            break
                        if r.returncode == 2:
                            rec.update(outcome="harness_error", by=c, what=(r.stderr[-300:] + r.stdout[-200:]))
                            break
            finally:
                open(path, "w").write(src)
            rec["s"] = round(time.time() - t0, 1)
            open(OUT, "a").write(json.dumps(rec) + "\n")
            print(f"{f}:{rec['lineno']} {op} {line[:70]!r} {rec['outcome']} {rec.get('by','')} {rec['s']}s", flush=True)

main()
