#!/usr/bin/env python3
"""tools/seed_save.py <Cxx> <needs...> -- copies a confirmed seeded change into /verif/seeded/<id>/ and runs the
quick checks named in CHECKS env (space separated) against it, recording which caught it."""
import sys, os, json, shutil, subprocess, re
pid = sys.argv[1]; needs = " ".join(sys.argv[2:])
rnd = os.environ.get("ROUND", "")
# WT / NAME / PROP / CONFIRM override the defaults (round 5 was organised by source file, not by property)
wt = os.environ.get("WT", f"/tmp/wt{rnd}-{pid}"); dst = "/verif/seeded/" + os.environ.get("NAME", f"{pid}" + (f"-{rnd}" if rnd else ""))
prop = os.environ.get("PROP", pid)
assert not os.path.exists(dst + "/meta.json") or os.environ.get("OVERWRITE"), f"{dst} already holds a saved change: pick another NAME (or set OVERWRITE=1)"
os.makedirs(dst, exist_ok=True)
shutil.copy(f"{wt}/patch.diff", f"{dst}/patch.diff")
import glob
for demo in glob.glob(f"{wt}/chitchat/src/demo_*.rs"): shutil.copy(demo, f"{dst}/{os.path.basename(demo)}")
if os.path.exists(f"{wt}/NOTES.md"): shutil.copy(f"{wt}/NOTES.md", f"{dst}/NOTES.md")
cl = os.environ.get("CONFIRM", f"/tmp/confirm{rnd}-{pid}.log")
confirm = open(cl).read() if os.path.exists(cl) else ""
open(f"{dst}/confirm.log", "w").write(confirm)
checks = os.environ.get("CHECKS", prop).split()
REPO = os.environ.get("REPO", "/repo"); CHECK = os.environ.get("CHECK", "/verif/check")  # an isolated copy (tools/mutscan_setup.sh) while /repo is in use
assert subprocess.run(f"git -C {REPO} status --porcelain", shell=True, capture_output=True, text=True).stdout.strip() == ""
# the checks rewrite evidence/<id>.json on every run: what they write while a seeded change is applied is
# not evidence about the unchanged tree, so the files are put back afterwards
EVID = os.path.dirname(CHECK) + "/evidence"; keep = EVID + ".keep"
shutil.rmtree(keep, ignore_errors=True); shutil.copytree(EVID, keep)
subprocess.run(f"git -C {REPO} apply {dst}/patch.diff", shell=True, check=True)
res = {}
try:
    for c in checks:
        r = subprocess.run(f"{CHECK} {c} quick", shell=True, capture_output=True, text=True)
        lines = [l for l in r.stdout.splitlines() if l.startswith(("minimised", "violation", "VIOLATION"))]
        res[c] = {"exit": r.returncode, "caught": "VIOLATION" in r.stdout, "output": [l[:300] for l in lines[-3:]]}
        print(pid, c, "CAUGHT" if res[c]["caught"] else "missed", (lines[-2][:160] if len(lines) > 1 else ""))
finally:
    subprocess.run(f"git -C {REPO} checkout -- .", shell=True)
    shutil.rmtree(EVID, ignore_errors=True); shutil.move(keep, EVID)
meta = {"property": prop, "breaks": prop, "source": "sub-agent given only the property text and a scratch worktree",
        "needs_to_manifest": needs,
        "confirmed": {"how": "tools/seed_confirm.sh in the agent's scratch worktree: full `cargo test -p chitchat` with the change, demo without the change, demo with the change", "log": "confirm.log"},
        "ran": [f"git -C /repo apply {dst}/patch.diff; ./check {c} quick; git -C /repo checkout -- ." for c in checks],
        "results": res}
json.dump(meta, open(f"{dst}/meta.json", "w"), indent=1)
